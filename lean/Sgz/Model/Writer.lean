import Sgz.Model.Geo
/-!
# Model/Writer — the producers of `seismic_zfp/conversion_utils.py`, as they are written

`numpy_producer`, `seismic_file_producer` (+ `io_thread_func`) and `seismic_file_producer_2d` (+ `io_thread_func_2d`):
for every plane set (trace group) a padded buffer is filled from the source, the real part is fed to the hash, and the
buffer is handed to `zfpy.compress_numpy` either whole (default layout) or disk block by disk block.  The compressor codes
the 4×4×4 (4×4) cells of each array it is given in raster order, one unit per cell (assumption A1), and the writer thread
appends the results in the order of the calls (C16).  So the data section is the list `cells g`, each cell coded from the
source samples `fillAt g` assigns to its 64 voxels.
-/
namespace Sgz
namespace Writer

/-- `planes_to_read` / `traces_to_read` for group `s` of `b` items out of `n` -/
def toRead (n b s : Nat) : Nat := if (s + 1) * b > n then n % b else b

/-- `io_thread_func` (and, equivalently, `np.pad(…, 'edge')` in `numpy_producer`): source coordinate carried by voxel
`(i,x,z)` of the buffer of plane set `s` — planes beyond the last real one repeat the last populated plane of the set,
crosslines beyond `n1` repeat crossline `n1-1`, samples beyond `n2` repeat sample `n2-1` -/
def fill (g : Geo) (s i x z : Nat) : Nat × Nat × Nat :=
  let p := toRead g.n0 g.b0 s
  let il := if i < p then s * g.b0 + i else s * g.b0 + p - 1
  let xl := if x < g.n1 then x else g.n1 - 1
  let zz := if z < g.n2 then z else g.n2 - 1
  (il, xl, zz)

/-- source coordinate of padded voxel `(I,X,Z)` -/
def fillAt (g : Geo) (I X Z : Nat) : Nat × Nat × Nat := fill g (I / g.b0) (I % g.b0) X Z

/-- cells of one plane-set buffer (local cell coordinates) in the order they are coded: one `compress` of the whole
`(4, P1, P2)` buffer in the default layout, else one `compress` per `(b0,b1,b2)` block, `x` outer, `z` inner -/
def setCells (g : Geo) : List (Nat × Nat × Nat) :=
  if g.b0 == 4 && g.b1 == 4 then
    (List.range (g.P1 / 4)).flatMap fun cx => (List.range (g.P2 / 4)).map fun cz => (0, cx, cz)
  else
    (List.range g.NB1).flatMap fun x => (List.range g.NB2).flatMap fun z =>
      (List.range (g.b0 / 4)).flatMap fun ci => (List.range (g.b1 / 4)).flatMap fun cx =>
        (List.range (g.b2 / 4)).map fun cz => (ci, x * (g.b1 / 4) + cx, z * (g.b2 / 4) + cz)

/-- all cells of the data section, in file order (global cell coordinates: cell `(ci,cx,cz)` covers padded voxels
`[4ci,4ci+4) × [4cx,4cx+4) × [4cz,4cz+4)`) -/
def cells (g : Geo) : List (Nat × Nat × Nat) :=
  (List.range g.NB0).flatMap fun s => (setCells g).map fun c => (s * (g.b0 / 4) + c.1, c.2.1, c.2.2)

/-- `hash_object.update(buffer[i, 0:n_xlines, 0:trace_length])` for `i < planes_to_read`, plane set after plane set:
the sequence of source coordinates whose float32 bytes are fed to SHA-1 -/
def hashFeed (g : Geo) : List (Nat × Nat × Nat) :=
  (List.range g.NB0).flatMap fun s => (List.range (toRead g.n0 g.b0 s)).flatMap fun i =>
    (List.range g.n1).flatMap fun x => (List.range g.n2).map fun z => fill g s i x z

/-! ## 2D (`n0 = b0 = 1`; `n1` traces) -/

/-- `io_thread_func_2d`: rows beyond the last real trace of the group repeat the *last trace of the file* -/
def fill2d (g : Geo) (tg i z : Nat) : Nat × Nat :=
  let p := toRead g.n1 g.b1 tg
  let t := if i < p then tg * g.b1 + i else g.n1 - 1
  let zz := if z < g.n2 then z else g.n2 - 1
  (t, zz)

def fillAt2d (g : Geo) (T Z : Nat) : Nat × Nat := fill2d g (T / g.b1) (T % g.b1) Z

def groupCells2d (g : Geo) : List (Nat × Nat) :=
  if g.b1 == 4 then (List.range (g.P2 / 4)).map fun cz => (0, cz)
  else (List.range g.NB2).flatMap fun z => (List.range (g.b1 / 4)).flatMap fun cx =>
    (List.range (g.b2 / 4)).map fun cz => (cx, z * (g.b2 / 4) + cz)

def cells2d (g : Geo) : List (Nat × Nat) :=
  (List.range g.NB1).flatMap fun tg => (groupCells2d g).map fun c => (tg * (g.b1 / 4) + c.1, c.2)

/-- `hash_object.update(seismic_buffer[0:traces_to_read, 0:trace_length])` -/
def hashFeed2d (g : Geo) : List (Nat × Nat) :=
  (List.range g.NB1).flatMap fun tg => (List.range (toRead g.n1 g.b1 tg)).flatMap fun i =>
    (List.range g.n2).map fun z => fill2d g tg i z

/-! ## digests for the line protocol -/

/-- linear index of a source sample: the value the harness stores in the source cube at that coordinate -/
def lin (g : Geo) (c : Nat × Nat × Nat) : Nat := (c.1 * g.n1 + c.2.1) * g.n2 + c.2.2

/-- the 64 source values of cell `(ci,cx,cz)` in raster order -/
def cellValues (g : Geo) (c : Nat × Nat × Nat) : List Nat :=
  (List.range 4).flatMap fun a => (List.range 4).flatMap fun b => (List.range 4).map fun d =>
    lin g (fillAt g (4 * c.1 + a) (4 * c.2.1 + b) (4 * c.2.2 + d))

def cellValues2d (g : Geo) (c : Nat × Nat) : List Nat :=
  (List.range 4).flatMap fun a => (List.range 4).map fun d =>
    let s := fillAt2d g (4 * c.1 + a) (4 * c.2 + d)
    s.1 * g.n2 + s.2

/-- the digest the harness computes from the cell recorded by the symbolic compressor -/
def digest (vs : List Nat) : Nat :=
  (vs.headD 0 * 1000003 + vs.getLastD 0 * 10007 + vs.foldl (· + ·) 0) % 2147483647

end Writer
end Sgz
