import Sgz.Model.Arith
/-!
# Model/Export — `SgzConverter.convert_to_segy` (conversion.py:282-337) (C06)

* the data-sample format code is the big-endian 16-bit field at bytes 3225–3226 (1-based) of the stored SEG-Y file header;
  1 (IBM) and 5 (IEEE) are kept, anything else is replaced by 1 in the exported header;
* trace `i` of the export is `get_trace(i)`, header `i` is the regenerated header with `DelayRecordingTime` replaced by the
  first sample time; finally the stored 3600-byte file header is written over the start of the file.
-/
namespace Sgz
namespace Export

/-- the stored SEG-Y file header is the second 4096-byte block of the SGZ header -/
def segyHeaderAt : Nat := 4096
/-- byte positions, within the SEG-Y file header, of the data-sample-format code and of the extended-header count -/
def formatAt : Nat := 3224
def extCountAt : Nat := 3504
/-- bytes of the SEG-Y file header (textual + binary), written back over the start of the export -/
def fileHeaderBytes : Nat := 3600

/-- `struct.unpack('>H', hdr[3224:3226])` on the stored file header (a byte function) -/
def formatOf (fh : Nat → Nat) : Nat := fh formatAt * 256 + fh (formatAt + 1)

def supportedFormat (c : Nat) : Bool := c == 1 || c == 5

/-- format given to segyio -/
def exportFormat (fh : Nat → Nat) : Nat := if supportedFormat (formatOf fh) then formatOf fh else 1

/-- the 3600 bytes written over the start of the export -/
def exportFileHeader (fh : Nat → Nat) : Nat → Nat :=
  if supportedFormat (formatOf fh) then fh
  else fun i => if i == 3224 then 0 else if i == 3225 then 1 else fh i

/-- `struct.unpack('>h', hdr[3504:3506])`: the number of extended textual headers the source's binary header announces
(negative = "variable", taken as none) -/
def extCount (fh : Nat → Nat) : Nat :=
  let w := fh extCountAt * 256 + fh (extCountAt + 1)
  if w < 32768 then w else 0

/-- what `'>h'` makes of the 16-bit word `w` -/
def signed16 (w : Nat) : Int := if w < 32768 then (w : Int) else (w : Int) - 65536

/-- file offset of trace `t` of the export: after the file headers, the (blank) extended textual headers segyio is asked to
leave room for, and `t` traces of 240 + 4·ns bytes -/
def exportTraceOffset (fh : Nat → Nat) (ns t : Nat) : Nat := 3600 + 3200 * extCount fh + t * (240 + 4 * ns)

/-- where a SEG-Y reader looks for trace `t`, from the binary header it finds in the file -/
def segyTraceOffset (fileHeader : Nat → Nat) (ns t : Nat) : Nat :=
  3600 + 3200 * extCount fileHeader + t * (240 + 4 * ns)

/-- header `i`, field `f` of the export -/
def exportHeader (regen : Nat → Nat → Int) (drtField : Nat) (firstSampleMs : Int) (i f : Nat) : Int :=
  if f == drtField then firstSampleMs else regen i f

/-- trace order of the export: trace `i` is trace `i` of the SGZ (2D and irregular files included) -/
def exportTrace (getTrace : Nat → α) (i : Nat) : α := getTrace i

end Export
end Sgz
