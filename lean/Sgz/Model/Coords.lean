import Sgz.Model.Reader
import Sgz.Model.Axes
/-!
# Model/Coords — reads addressed by line number (read.py:354-457, utils.coord_to_index)

`read_inline_number(n)` = `read_inline(coord_to_index(n, ilines))`, likewise for crosslines; `coord_to_index` returns the
first index whose axis value equals the coordinate and raises IndexError otherwise (`include_stop` additionally admits
`last + step`, returning `len`).
-/
namespace Sgz
namespace Coords

/-- `utils.coord_to_index(coord, coords, include_stop)` -/
def coordToIndex (coords : List Int) (c : Int) (includeStop : Bool := false) : Except Err Nat :=
  match coords.findIdx? (· == c) with
  | some i => .ok i
  | none =>
    if includeStop && coords.length ≥ 2
        && c == coords.getD (coords.length - 1) 0 + (coords.getD (coords.length - 1) 0 - coords.getD (coords.length - 2) 0)
    then .ok coords.length else .error .index

def readInlineNumber (g : Geo) (il0 dil : Int) (number : Int) : R :=
  if g.is2d then .error .dim else
  match coordToIndex (Axes.axis il0 dil g.n0) number with
  | .error e => .error e
  | .ok k => Reader.readInline g k

def readCrosslineNumber (g : Geo) (xl0 dxl : Int) (number : Int) : R :=
  if g.is2d then .error .dim else
  match coordToIndex (Axes.axis xl0 dxl g.n1) number with
  | .error e => .error e
  | .ok k => Reader.readCrossline g k

end Coords
end Sgz
