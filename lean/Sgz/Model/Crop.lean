import Sgz.Model.Geo
/-!
# Model/Crop — `SgzCropper` (cropping.py): bounds, output geometry and the copied compression units (C10)

Cropping never re-compresses: the output data section is a selection of the source's units, in a new order.  `units g box`
is that selection, as the code builds it — `read_chunk_range` in the default layout (one copy per 4×4 trace column of the
box), whole disk blocks in the other layouts.
-/
namespace Sgz
namespace Crop

/-- a requested range per axis; `none` = axis not cropped -/
abbrev Range := Option (Int × Int)

/-- `check_and_correct_bounds`: refusal conditions (→ IndexError, nothing written) -/
def refuses (g : Geo) (ri rx rz : Range) : Bool :=
  let bad (r : Range) (n : Nat) : Bool :=
    match r with
    | none => false
    | some (lo, hi) => lo < 0 || hi > n || lo ≥ hi
  (ri.isNone && rx.isNone && rz.isNone) || bad ri g.n0 || bad rx g.n1 || bad rz g.n2

/-- `correct_bounds`: widen outward to block boundaries, clip to the cube -/
def correct (lo hi b n : Nat) : Nat × Nat :=
  let lo' := if lo % b != 0 then lo - lo % b else lo
  let hi' := if hi % b != 0 then hi - hi % b + b else hi
  (max lo' 0, min hi' n)

def rangeOr (r : Range) (n : Nat) : Nat × Nat :=
  match r with
  | none => (0, n)
  | some (lo, hi) => (lo.toNat, hi.toNat)

structure Box where
  i0 : Nat
  i1 : Nat
  x0 : Nat
  x1 : Nat
  z0 : Nat
  z1 : Nat
deriving Repr, DecidableEq

/-- the box actually written -/
def box (g : Geo) (ri rx rz : Range) : Box :=
  let (a, b) := rangeOr ri g.n0
  let (c, d) := rangeOr rx g.n1
  let (e, f) := rangeOr rz g.n2
  let (i0, i1) := correct a b g.b0 g.n0
  let (x0, x1) := correct c d g.b1 g.n1
  let (z0, z1) := correct e f g.b2 g.n2
  ⟨i0, i1, x0, x1, z0, z1⟩

/-- geometry stated in the output header -/
def outGeo (g : Geo) (b : Box) : Geo := { g with n0 := b.i1 - b.i0, n1 := b.x1 - b.x0, n2 := b.z1 - b.z0 }

/-- source unit index of every unit of the output data section, in output file order -/
def units (g : Geo) (b : Box) : List Nat :=
  if g.b0 == 4 && g.b1 == 4 then
    let zU := (pad b.z1 g.b2 - b.z0) / 4
    let xlU := (pad b.x1 4 - b.x0) / 4
    let ilU := (pad b.i1 4 - b.i0) / 4
    (List.range ilU).flatMap fun i => (List.range xlU).flatMap fun x => (List.range zU).map fun z =>
      ((b.i0 / 4 + i) * (g.P1 / 4) * (g.P2 / 4) + (b.x0 / 4 + x) * (g.P2 / 4) + b.z0 / 4) + z
  else
    let f0 := b.i0 / g.b0
    let f1 := b.x0 / g.b1
    let f2 := b.z0 / g.b2
    let n0 := pad b.i1 g.b0 / g.b0 - f0
    let n1 := pad b.x1 g.b1 / g.b1 - f1
    let n2 := pad b.z1 g.b2 / g.b2 - f2
    (List.range n0).flatMap fun i => (List.range n1).flatMap fun x => (List.range n2).flatMap fun z =>
      (List.range g.cpb).map fun c => (g.NB2 * (g.NB1 * (f0 + i) + (f1 + x)) + (f2 + z)) * g.cpb + c

/-- cropped footer array: `header_array.reshape(n0, n1)[i0:i1, x0:x1].flatten()` — source grid trace of output trace `t` -/
def traceMap (g : Geo) (b : Box) (t : Nat) : Nat := (b.i0 + t / (b.x1 - b.x0)) * g.n1 + (b.x0 + t % (b.x1 - b.x0))

end Crop
end Sgz
