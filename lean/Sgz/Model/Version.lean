/-!
# Model/Version — `seismic_zfp/version.py`

The version word written at header bytes 72-75 and the comparisons (`>` through the encoding) that gate the reader's
conventions.  `dev = true` means "changes exist" (a development / release-candidate build).
-/
namespace Sgz

structure Ver where
  major : Nat
  minor : Nat
  patch : Nat
  dev   : Bool
deriving Repr, DecidableEq

namespace Ver

/-- `to_encoding` (version.py:40-44) -/
def encode (v : Ver) : Nat := 1024 * 2048 * v.major + 2048 * v.minor + 2 * v.patch + 1 - (if v.dev then 1 else 0)

/-- `__init__` from an `int` (version.py:26-30) -/
def decode (n : Nat) : Ver :=
  let major := n / (1024 * 2048)
  let minor := (n - major * 1024 * 2048) / 2048
  let patch := (n - major * 1024 * 2048 - minor * 2048) / 2
  { major := major, minor := minor, patch := patch, dev := n % 2 == 0 }

/-- `__gt__`: comparison goes through the encoding -/
def gt (a b : Ver) : Bool := decide (a.encode > b.encode)

/-- well-formed: the fields the encoding has room for -/
def Wf (v : Ver) : Prop := v.minor < 1024 ∧ v.patch < 1024

instance (v : Ver) : Decidable v.Wf := by unfold Wf; infer_instance

/-- release order: (major, minor, patch) lexicographically, a development build just below its release -/
def lt (a b : Ver) : Prop :=
  a.major < b.major ∨ (a.major = b.major ∧ (a.minor < b.minor ∨ (a.minor = b.minor ∧
    (a.patch < b.patch ∨ (a.patch = b.patch ∧ a.dev = true ∧ b.dev = false)))))

def v_0_2_1 : Ver := ⟨0, 2, 1, false⟩
def v_0_1_6 : Ver := ⟨0, 1, 6, false⟩

/-- reader gates (read.py:160-165, 323-324) -/
def paddedFooter (fileVersion : Nat) : Bool := gt (decode fileVersion) v_0_2_1
def microseconds (fileVersion : Nat) : Bool := gt (decode fileVersion) v_0_1_6

/-! ## string parsing (version.py, after the repair): `^(\d+)\.(\d+)(?:\.(\d+))?(.*)$` -/

def takeDigits (cs : List Char) : List Char × List Char := cs.span Char.isDigit

def digitsToNat (ds : List Char) : Nat := ds.foldl (fun acc c => acc * 10 + (c.toNat - '0'.toNat)) 0

/-- `none` = ValueError -/
def parse (s : String) : Option Ver :=
  let (d1, r1) := takeDigits s.toList
  if d1.isEmpty then none else
  match r1 with
  | '.' :: r1' =>
    let (d2, r2) := takeDigits r1'
    if d2.isEmpty then none else
    match r2 with
    | '.' :: r2' =>
      let (d3, r3) := takeDigits r2'
      if d3.isEmpty then
        -- no numeric patch component: the optional group does not match, the rest (".dev1+g…") is non-empty
        some ⟨digitsToNat d1, digitsToNat d2, 0, true⟩
      else some ⟨digitsToNat d1, digitsToNat d2, digitsToNat d3, !r3.isEmpty⟩
    | [] => some ⟨digitsToNat d1, digitsToNat d2, 0, false⟩
    | _ => some ⟨digitsToNat d1, digitsToNat d2, 0, true⟩
  | _ => none

end Ver
end Sgz
