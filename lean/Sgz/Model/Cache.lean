import Sgz.Model.Reader
/-!
# Model/Cache — the reader's memoisation, as a state machine (C15)

What `seismic_zfp` remembers between calls:

* every loader method is wrapped in `functools.lru_cache(maxsize=1)` **at class level** (loader.py:62,70,134,…): one slot
  per method, shared by all loader objects of the process, keyed on `(self, args)`; `SgzReader.close()` →
  `loader.clear_cache()` empties the slots of *every* reader;
* each reader owns an LRU of decompressed chunks for trace reads
  (`lru_cache(maxsize=chunk_cache_size)(self._read_containing_chunk)`, read.py:241-244);
* with `preload=True` the compressed volume is held in memory and no range read is issued after opening.

`step` runs one read call of one reader against this state and returns the new state, the result, and the range reads
actually issued (none on a hit).  The state stores the *values* that were computed when an entry was made; the theorem
(Props/C15) is that, whatever the history, what a call returns is what a fresh reader returns.
-/
namespace Sgz
namespace Cache

/-- arguments of one loader call (the cache key next to `self`) -/
inductive LKey where
  | il (i : Nat)
  | xl (x : Nat)
  | zs (zid : Nat)
  | zsAdv (zb : Nat)
  | chunk (maxIl maxXl maxZ minIl minXl minZ : Nat) (multithreading : Bool)
  | unsh (maxIl maxXl maxZ minIl minXl minZ : Nat)
  | tr2 (minId maxId : Nat)
  | unsh2 (maxId maxZ minId minZ : Nat)
deriving DecidableEq, Repr

/-- what the loader method computes for these arguments on a file of geometry `g` -/
def LKey.load (g : Geo) : LKey → Load
  | .il i => Loader.ilSet g i
  | .xl x => Loader.xlSet g x
  | .zs zid => Loader.zsliceSet g zid
  | .zsAdv zb => Loader.zsliceAdv g zb
  | .chunk a b c d e f _ => Loader.chunkRange g a b c d e f
  | .unsh a b c d e f => Loader.unshuffle g a b c d e f
  | .tr2 a b => Loader.traceRange g a b
  | .unsh2 a b c d => Loader.unshuffle2d g a b c d

/-- which of the eight class-level slots a key lives in -/
def LKey.slot : LKey → Nat
  | .il _ => 0 | .xl _ => 1 | .zs _ => 2 | .zsAdv _ => 3 | .chunk .. => 4 | .unsh .. => 5 | .tr2 .. => 6 | .unsh2 .. => 7

/-- one remembered loader call: (reader id, arguments, value) -/
structure Entry where
  rid : Nat
  key : LKey
  val : Load

/-- key of the per-reader chunk LRU: `(ref_il, ref_xl, min_z, max_z)` -/
structure CKey where
  refIl : Nat
  refXl : Nat
  minZ  : Nat
  maxZ  : Nat
deriving DecidableEq, Repr

structure CEntry where
  rid : Nat
  key : CKey
  n   : Nat × Nat × Nat
  val : Nat → Nat → Nat → Nat      -- the decompressed chunk (provenance of each voxel)

structure St where
  slots : List Entry        -- at most one entry per slot number
  lru   : List CEntry       -- most recently used first; per reader at most `cap rid` entries

def St.init : St := { slots := [], lru := [] }

/-- per-reader settings -/
structure Cfg where
  preload : Nat → Bool
  cap     : Nat → Nat        -- chunk_cache_size

/-- `lru_cache(maxsize=1)` call: hit iff the slot holds exactly `(rid, key)` -/
def callLoader (g : Geo) (st : St) (rid : Nat) (k : LKey) : St × Load × Bool :=
  match st.slots.find? (fun e => e.key.slot == k.slot) with
  | some e =>
    if e.rid == rid && e.key == k then (st, e.val, true)
    else
      let v := k.load g
      ({ st with slots := { rid := rid, key := k, val := v } :: st.slots.filter (fun e => e.key.slot != k.slot) }, v, false)
  | none =>
    let v := k.load g
    ({ st with slots := { rid := rid, key := k, val := v } :: st.slots }, v, false)

def fetchesOfCall (cfg : Cfg) (rid : Nat) (L : Load) (hit : Bool) : List (Nat × Nat) :=
  if hit || cfg.preload rid then [] else L.fetches

/-- `read_subvolume` against the state (read.py:665-728) -/
def readSubvolume (g : Geo) (cfg : Cfg) (st : St) (rid : Nat) (accessPadding mt : Bool) (i0 i1 x0 x1 z0 z1 : Int) :
    St × R :=
  if g.is2d then (st, .error .dim) else
  let up0 : Int := if accessPadding then g.P0 else g.n0
  let up1 : Int := if accessPadding then g.P1 else g.n1
  let up2 : Int := if accessPadding then g.P2 else g.n2
  if !(Reader.rangeOk i0 i1 up0) then (st, .error .index) else
  if !(Reader.rangeOk x0 x1 up1) then (st, .error .index) else
  if !(Reader.rangeOk z0 z1 up2) then (st, .error .index) else
  let (i0, i1, x0, x1, z0, z1) := (i0.toNat, i1.toNat, x0.toNat, x1.toNat, z0.toNat, z1.toNat)
  if Reader.isDefault g then
    let (st', L, hit) := callLoader g st rid (.chunk i1 x1 z1 i0 x0 z0 mt)
    (st', .ok { arr := .a3 (i1 - i0) (x1 - x0) (z1 - z0) fun a b c => L.src (i0 % 4 + a) (x0 % 4 + b) (z0 % 4 + c)
                fetches := fetchesOfCall cfg rid L hit })
  else
    let (st', L, hit) := callLoader g st rid (.unsh i1 x1 z1 i0 x0 z0)
    (st', .ok { arr := .a3 (i1 - i0) (x1 - x0) (z1 - z0)
                  fun a b c => L.src (i0 % g.b0 + a) (x0 % g.b1 + b) (z0 % g.b2 + c)
                fetches := fetchesOfCall cfg rid L hit })

def readInline (g : Geo) (cfg : Cfg) (st : St) (rid : Nat) (k : Int) : St × R :=
  if g.is2d then (st, .error .dim) else
  if !(0 ≤ k && k < g.n0) then (st, .error .index) else
  let k := k.toNat
  if Reader.isDefault g then
    let (st', L, hit) := callLoader g st rid (.il (4 * (k / 4)))
    (st', .ok { arr := .a2 g.n1 g.n2 fun x z => L.src (k % g.b0) x z, fetches := fetchesOfCall cfg rid L hit })
  else
    let (st', r) := readSubvolume g cfg st rid false true k (k + 1) 0 g.n1 0 g.n2
    (st', Reader.squeeze0 r)

def readCrossline (g : Geo) (cfg : Cfg) (st : St) (rid : Nat) (k : Int) : St × R :=
  if g.is2d then (st, .error .dim) else
  if !(0 ≤ k && k < g.n1) then (st, .error .index) else
  let k := k.toNat
  if Reader.isDefault g then
    let (st', L, hit) := callLoader g st rid (.xl (4 * (k / 4)))
    (st', .ok { arr := .a2 g.n0 g.n2 fun i z => L.src i (k % g.b1) z, fetches := fetchesOfCall cfg rid L hit })
  else
    let (st', r) := readSubvolume g cfg st rid false true 0 g.n0 k (k + 1) 0 g.n2
    (st', Reader.squeeze1 r)

def readZslice (g : Geo) (cfg : Cfg) (st : St) (rid : Nat) (k : Int) : St × R :=
  if g.is2d then (st, .error .dim) else
  if !(0 ≤ k && k < g.n2) then (st, .error .index) else
  let k := k.toNat
  if Reader.isDefault g then
    let (st', L, hit) := callLoader g st rid (.zs k)
    (st', .ok { arr := .a2 g.n0 g.n1 fun i x => L.src i x (k % 4), fetches := fetchesOfCall cfg rid L hit })
  else if g.b2 == 4 then
    let (st', L, hit) := callLoader g st rid (.zsAdv (k / g.b2))
    (st', .ok { arr := .a2 g.n0 g.n1 fun i x => L.src i x (k % 4), fetches := fetchesOfCall cfg rid L hit })
  else
    let (st', r) := readSubvolume g cfg st rid false true 0 g.n0 0 g.n1 k (k + 1)
    (st', Reader.squeeze2 r)

def readSubplane (g : Geo) (cfg : Cfg) (st : St) (rid : Nat) (accessPadding : Bool) (t0 t1 z0 z1 : Int) : St × R :=
  if !g.is2d then (st, .error .dim) else
  let upT : Int := if accessPadding then g.P1 else g.n1
  let upZ : Int := if accessPadding then g.P2 else g.n2
  if !(Reader.rangeOk t0 t1 upT) then (st, .error .index) else
  if !(Reader.rangeOk z0 z1 upZ) then (st, .error .index) else
  let (t0, t1, z0, z1) := (t0.toNat, t1.toNat, z0.toNat, z1.toNat)
  let (st', L, hit) := callLoader g st rid
    (.unsh2 (g.b1 * cdiv t1 g.b1) (g.b2 * cdiv z1 g.b2) (g.b1 * (t0 / g.b1)) (g.b2 * (z0 / g.b2)))
  (st', .ok { arr := .a2 (t1 - t0) (z1 - z0) fun a c => L.src 0 (t0 % g.b1 + a) (z0 % g.b2 + c)
              fetches := fetchesOfCall cfg rid L hit })

/-- insert at the front; keep at most `cap` entries of this reader (least recently used dropped) -/
def lruInsert (lru : List CEntry) (e : CEntry) (cap : Nat) : List CEntry :=
  let mine := (lru.filter (fun x => x.rid == e.rid)).take (cap - 1)
  e :: (lru.filter fun x => x.rid != e.rid || mine.any (fun m => m.key == x.key))

/-- `get_trace` (read.py:782-848) on a grid index -/
def getTrace (g : Geo) (cfg : Cfg) (st : St) (rid : Nat) (index a b : Int) : St × R :=
  if !(Reader.windowOk g a b) then (st, .error .index) else
  let (a, b) := (a.toNat, b.toNat)
  if g.is2d then
    if !(0 ≤ index && index < g.n1) then (st, .error .index) else
    let t := index.toNat
    let minTrace := g.b1 * (t / g.b1)
    let minZ := g.b2 * (a / g.b2)
    let maxZ := g.b2 * cdiv b g.b2
    if g.b1 == 4 && minZ == 0 && maxZ == g.P2 then
      let (st', L, hit) := callLoader g st rid (.tr2 minTrace (minTrace + g.b1))
      (st', .ok { arr := .a1 (b - a) fun c => L.src 0 (t % g.b1) (a - minZ + c), fetches := fetchesOfCall cfg rid L hit })
    else
      match readSubplane g cfg st rid true minTrace (minTrace + g.b1) minZ maxZ with
      | (st', .error e) => (st', .error e)
      | (st', .ok o) =>
        match o.arr with
        | .a2 _ _ f => (st', .ok { arr := .a1 (b - a) fun c => f (t % g.b1) (a - minZ + c), fetches := o.fetches })
        | _ => (st', .error .other)
  else
    if !(0 ≤ index && index < g.n0 * g.n1) then (st, .error .index) else
    let t := index.toNat
    let il := t / g.n1
    let xl := t % g.n1
    let minIl := g.b0 * (il / g.b0)
    let minXl := g.b1 * (xl / g.b1)
    let minZ := g.b2 * (a / g.b2)
    let maxZ := g.b2 * cdiv b g.b2
    let ck : CKey := ⟨minIl, minXl, minZ, maxZ⟩
    match st.lru.find? (fun e => e.rid == rid && e.key == ck) with
    | some e =>
      -- hit: move to the front
      let lru' := e :: st.lru.filter (fun x => !(x.rid == rid && x.key == ck))
      ({ st with lru := lru' },
       .ok { arr := .a1 (b - a) fun c => e.val (il % g.b0) (xl % g.b1) (a - minZ + c), fetches := [] })
    | none =>
      match readSubvolume g cfg st rid true false minIl (minIl + g.b0) minXl (minXl + g.b1) minZ maxZ with
      | (st', .error e) => (st', .error e)
      | (st', .ok o) =>
        match o.arr with
        | .a3 n m k f =>
          ({ st' with lru := lruInsert st'.lru { rid := rid, key := ck, n := (n, m, k), val := f } (cfg.cap rid) },
           .ok { arr := .a1 (b - a) fun c => f (il % g.b0) (xl % g.b1) (a - minZ + c), fetches := o.fetches })
        | _ => (st', .error .other)

/-- traces stacked one by one through `getTrace` (the diagonals, read.py:492-620): the state threads through, so a chunk
already in the reader's LRU is not fetched again -/
def stackTraces (g : Geo) (cfg : Cfg) (st : St) (rid : Nat) (idxs : List Int) (a b : Int) : St × R :=
  let rec go (st : St) (rest : List Int) (rows : List (Nat → Nat)) (fs : List (Nat × Nat)) :
      St × Except Err (List (Nat → Nat) × List (Nat × Nat)) :=
    match rest with
    | [] => (st, .ok (rows.reverse, fs))
    | t :: ts =>
      match getTrace g cfg st rid t a b with
      | (st', .error e) => (st', .error e)
      | (st', .ok o) =>
        match o.arr with
        | .a1 _ f => go st' ts (f :: rows) (fs ++ o.fetches)
        | _ => (st', .error .other)
  match go st idxs [] [] with
  | (st', .error e) => (st', .error e)
  | (st', .ok (rows, fs)) =>
    (st', .ok { arr := .a2 rows.length (b - a).toNat fun d c => (rows.getD d (fun _ => 0)) c, fetches := fs })

/-- range and window arguments of a diagonal read, as `Reader.readCorrelatedDiagonal` checks them -/
def diagArgs (g : Geo) (maxLen : Int) (rng win : Option (Int × Int)) : Except Err ((Int × Int) × (Int × Int)) :=
  let r : Except Err (Int × Int) :=
    match rng with
    | none => .ok (0, maxLen)
    | some (lo, hi) =>
      if !(0 ≤ lo && lo < maxLen) then .error .index
      else if !(0 < hi && hi ≤ maxLen) then .error .index
      else if !(lo < hi) then .error .index
      else .ok (lo, hi)
  match r with
  | .error e => .error e
  | .ok (lo, hi) =>
    match win with
    | none => .ok ((lo, hi), (0, g.n2))
    | some (s, e) => if Reader.windowOk g s e then .ok ((lo, hi), (s, e)) else .error .index

def readCorrelatedDiagonal (g : Geo) (cfg : Cfg) (st : St) (rid : Nat) (cd : Int) (rng win : Option (Int × Int)) : St × R :=
  if g.is2d then (st, .error .dim) else
  if !(-(g.n1 : Int) < cd && cd < g.n0) then (st, .error .index) else
  match diagArgs g (Reader.cdLen cd g.n0 g.n1) rng win with
  | .error e => (st, .error e)
  | .ok ((lo, hi), (s, e)) =>
    let ds : List Int := (List.range (hi - lo).toNat).map fun (d : Nat) => lo + (d : Int)
    let idxs := ds.map fun d => if cd ≥ 0 then (d + cd) * g.n1 + d else d * g.n1 + d - cd
    stackTraces g cfg st rid idxs s e

def readAnticorrelatedDiagonal (g : Geo) (cfg : Cfg) (st : St) (rid : Nat) (ad : Int) (rng win : Option (Int × Int)) : St × R :=
  if g.is2d then (st, .error .dim) else
  if !(0 ≤ ad && ad < (g.n0 : Int) + g.n1 - 1) then (st, .error .index) else
  match diagArgs g (Reader.adLen ad g.n0 g.n1) rng win with
  | .error e => (st, .error e)
  | .ok ((lo, hi), (s, e)) =>
    let ds : List Int := (List.range (hi - lo).toNat).map fun (d : Nat) => lo + (d : Int)
    let idxs := ds.map fun d =>
      if ad < g.n1 then ad + d * ((g.n1 : Int) - 1)
      else (ad - g.n1 + 1 + d) * g.n1 + ((g.n1 : Int) - d - 1)
    stackTraces g cfg st rid idxs s e

/-- the read calls of a history -/
inductive Op where
  | il (k : Int) | xl (k : Int) | zs (k : Int)
  | sub (i0 i1 x0 x1 z0 z1 : Int)
  | vol
  | subp (t0 t1 z0 z1 : Int)
  | tr (t a b : Int)
  | cd (c : Int) (rng win : Option (Int × Int))
  | ad (c : Int) (rng win : Option (Int × Int))
  | close                      -- `SgzReader.close()`: clears the class-level slots; the reader's own LRU goes with it
deriving Repr

/-- what a fresh reader returns -/
def pure (g : Geo) : Op → R
  | .il k => Reader.readInline g k
  | .xl k => Reader.readCrossline g k
  | .zs k => Reader.readZslice g k
  | .sub a b c d e f => Reader.readSubvolume g false a b c d e f
  | .vol => Reader.readVolume g
  | .subp a b c d => Reader.readSubplane g false a b c d
  | .tr t a b => Reader.getTrace g t a b
  | .cd c rng win => Reader.readCorrelatedDiagonal g c rng win
  | .ad c rng win => Reader.readAnticorrelatedDiagonal g c rng win
  | .close => .error .other

def step (g : Geo) (cfg : Cfg) (st : St) (rid : Nat) : Op → St × R
  | .il k => readInline g cfg st rid k
  | .xl k => readCrossline g cfg st rid k
  | .zs k => readZslice g cfg st rid k
  | .sub a b c d e f => readSubvolume g cfg st rid false true a b c d e f
  | .vol => readSubvolume g cfg st rid false true 0 g.n0 0 g.n1 0 g.n2
  | .subp a b c d => readSubplane g cfg st rid false a b c d
  | .tr t a b => getTrace g cfg st rid t a b
  | .cd c rng win => readCorrelatedDiagonal g cfg st rid c rng win
  | .ad c rng win => readAnticorrelatedDiagonal g cfg st rid c rng win
  | .close => ({ slots := [], lru := st.lru.filter (fun e => e.rid != rid) }, .error .other)

/-- run a history; the results of all calls, in order -/
def run (g : Geo) (cfg : Cfg) : St → List (Nat × Op) → List R
  | _, [] => []
  | st, (rid, op) :: rest =>
    let (st', r) := step g cfg st rid op
    r :: run g cfg st' rest

end Cache
end Sgz
