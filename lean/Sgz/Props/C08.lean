import Sgz.Model.Irregular
import Mathlib.Data.List.Sort
import Mathlib.Tactic.Ring
import Mathlib.Tactic.Linarith
import Sgz.Proofs.HeaderReads
/-!
# C08 — irregular 3D surveys: inferred grid and trace identity

* `inferred_axis` — when every line of a regular axis `start, start+d, …, start+(n−1)d` (`n ≥ 2`, `d > 0`) carries at least
  one trace, the inferred range is `(start, start+(n−1)d, d)` and the grid axis has exactly `n` entries: each axis gets its
  *own* first number and increment.
* `ordinal_is_source_order` — if the source traces are sorted by (inline, crossline) — so that their grid slots
  `s₀ < s₁ < …` increase — and none of them has inline number 0, then the i-th populated slot the reader computes from the
  stored inline array is `sᵢ`: trace `i` and header `i` of the SGZ are the i-th source trace and header, and the trace
  count is the source's.
* `inline_zero_is_a_hole` — the recorded known finding KF-C08-inline-zero: a real trace on inline number 0 is
  indistinguishable from a hole (decided witness).
-/
namespace Sgz.Props.C08
open Sgz Irregular

/-- the populated slots are exactly the slots holding a non-zero inline number, in increasing order -/
theorem populated_sorted (stored : List Int) : (populated stored).Pairwise (· < ·) := by
  unfold populated
  exact List.Pairwise.filter _ List.pairwise_lt_range

theorem mem_populated (stored : List Int) (p : Nat) :
    p ∈ populated stored ↔ p < stored.length ∧ stored.getD p 0 ≠ 0 := by
  simp [populated]

/-- **trace identity** -/
theorem ordinal_is_source_order (stored : List Int) (slots : List Nat)
    (hsorted : slots.Pairwise (· < ·))
    (hfill : ∀ p, p ∈ slots ↔ p < stored.length ∧ stored.getD p 0 ≠ 0) :
    populated stored = slots ∧ tracecount stored = slots.length ∧ ∀ i, ordinalToGrid stored i = slots[i]? := by
  have h : populated stored = slots :=
    (populated_sorted stored).eq_of_mem_iff hsorted (fun p => by rw [mem_populated, hfill])
  exact ⟨h, by simp [tracecount, h], fun i => by simp [ordinalToGrid, h]⟩

theorem inline_zero_is_a_hole : ordinalToGrid [5, 0, 7] 1 = some 2 ∧ tracecount [5, 0, 7] = 2 := by decide

theorem foldl_min_le (xs : List Int) (a : Int) : xs.foldl min a ≤ a ∧ ∀ x ∈ xs, xs.foldl min a ≤ x := by
  induction xs generalizing a with
  | nil => simp
  | cons y ys ih =>
    obtain ⟨h1, h2⟩ := ih (min a y)
    refine ⟨le_trans h1 (min_le_left _ _), ?_⟩
    intro x hx
    rcases List.mem_cons.mp hx with rfl | hx'
    · exact le_trans h1 (min_le_right _ _)
    · exact h2 x hx'

theorem foldl_min_mem (xs : List Int) (a : Int) : xs.foldl min a = a ∨ xs.foldl min a ∈ xs := by
  induction xs generalizing a with
  | nil => simp
  | cons y ys ih =>
    rcases ih (min a y) with h | h
    · rcases min_choice a y with hm | hm
      · left; simp only [List.foldl_cons]; rw [h, hm]
      · right; simp only [List.foldl_cons]; rw [h, hm]; exact List.mem_cons_self ..
    · right; exact List.mem_cons_of_mem _ h

theorem foldl_max_ge (xs : List Int) (a : Int) : a ≤ xs.foldl max a ∧ ∀ x ∈ xs, x ≤ xs.foldl max a := by
  induction xs generalizing a with
  | nil => simp
  | cons y ys ih =>
    obtain ⟨h1, h2⟩ := ih (max a y)
    refine ⟨le_trans (le_max_left _ _) h1, ?_⟩
    intro x hx
    rcases List.mem_cons.mp hx with rfl | hx'
    · exact le_trans (le_max_right _ _) h1
    · exact h2 x hx'

theorem foldl_max_mem (xs : List Int) (a : Int) : xs.foldl max a = a ∨ xs.foldl max a ∈ xs := by
  induction xs generalizing a with
  | nil => simp
  | cons y ys ih =>
    rcases ih (max a y) with h | h
    · rcases max_choice a y with hm | hm
      · left; simp only [List.foldl_cons]; rw [h, hm]
      · right; simp only [List.foldl_cons]; rw [h, hm]; exact List.mem_cons_self ..
    · right; exact List.mem_cons_of_mem _ h

/-- **inferred axis**: any listing `ids` (any order, no repeats) of the `n ≥ 2` numbers `start + k·d` -/
theorem inferred_axis (ids : List Int) (start d : Int) (n : Nat) (hn : 2 ≤ n) (hd : 0 < d)
    (hlen : ids.length = n) (hmem : ∀ v, v ∈ ids ↔ ∃ k : Nat, k < n ∧ v = start + (k : Int) * d) :
    inferRange ids = some (start, start + ((n : Int) - 1) * d, d)
    ∧ axisLen start (start + ((n : Int) - 1) * d) d = n := by
  have hne : ids ≠ [] := by intro h; rw [h] at hlen; simp at hlen; omega
  obtain ⟨x0, rest, rfl⟩ := List.exists_cons_of_ne_nil hne
  have hmin : minOf (x0 :: rest) = start := by
    unfold minOf
    simp only [List.headD_cons, List.foldl_cons, min_self]
    apply le_antisymm
    · have hs : start ∈ x0 :: rest := (hmem start).mpr ⟨0, by omega, by simp⟩
      rcases List.mem_cons.mp hs with h | h
      · rw [h]; exact (foldl_min_le rest x0).1
      · exact (foldl_min_le rest x0).2 start h
    · have : rest.foldl min x0 ∈ x0 :: rest := by
        rcases foldl_min_mem rest x0 with h | h
        · rw [h]; exact List.mem_cons_self ..
        · exact List.mem_cons_of_mem _ h
      obtain ⟨k, _, hk⟩ := (hmem _).mp this
      rw [hk]; nlinarith [Int.natCast_nonneg k]
  have hmax : maxOf (x0 :: rest) = start + ((n : Int) - 1) * d := by
    unfold maxOf
    simp only [List.headD_cons, List.foldl_cons, max_self]
    apply le_antisymm
    · have : rest.foldl max x0 ∈ x0 :: rest := by
        rcases foldl_max_mem rest x0 with h | h
        · rw [h]; exact List.mem_cons_self ..
        · exact List.mem_cons_of_mem _ h
      obtain ⟨k, hk1, hk⟩ := (hmem _).mp this
      rw [hk]
      have : (k : Int) ≤ (n : Int) - 1 := by omega
      nlinarith
    · have hs : start + ((n : Int) - 1) * d ∈ x0 :: rest :=
        (hmem _).mpr ⟨n - 1, by omega, by congr 2; omega⟩
      rcases List.mem_cons.mp hs with h | h
      · rw [h]; exact (foldl_max_ge rest x0).1
      · exact (foldl_max_ge rest x0).2 _ h
  have hdiv : (start + ((n : Int) - 1) * d - start) / ((n : Int) - 1) = d := by
    rw [show start + ((n : Int) - 1) * d - start = ((n : Int) - 1) * d by ring]
    exact Int.mul_ediv_cancel_left d (by omega)
  constructor
  · unfold inferRange
    rw [if_neg (by omega), hmin, hmax, hlen, hdiv]
  · unfold axisLen
    rw [show start + ((n : Int) - 1) * d - start = ((n : Int) - 1) * d by ring, Int.mul_ediv_cancel _ (by omega)]
    omega

-- non-vacuity: unequal increments and independent starts on the two axes; listing in any order
example : inferRange [30, 10, 20] = some (10, 30, 10) ∧ inferRange [7, 5, 9, 11] = some (5, 11, 2) := by decide
example : populated [12, 0, 14, 0, 0, 16] = [0, 2, 5] ∧ ordinalToGrid [12, 0, 14, 0, 0, 16] 2 = some 5 := by decide

/-- header `t` of a file made from an irregular survey, after any history of header operations and in either padding mode,
is the header stored at the grid slot of the `t`-th populated trace (Model/HeaderReads; the slots are those where the
stored inline-number array is non-zero, in grid order — `populated` above) -/
theorem header_is_tth_populated_slot (h : HeaderReads.HFile) (il : Nat) (st : HeaderReads.HSt)
    (hinv : HeaderReads.HInv h il st) (t : Nat) (loadAll : Bool)
    (h3 : h.is3d = true) (hs : h.structured = false) (hsto : HeaderReads.hasStored h = true) :
    HeaderReads.HR.vals (HeaderReads.genTraceHeader h il st t loadAll).2 =
      (match (HeaderReads.positions h il)[t]? with
       | some pos => .ok (HeaderReads.headerAt h pos)
       | none => .error .index) := by
  rw [(HeaderReads.genTraceHeader_spec h il st hinv t loadAll (fun x => by rw [hs] at x; cases x) (fun _ _ => hsto)).2,
    HeaderReads.headerCanon_unstructured h il t h3 hs hsto]
  cases (HeaderReads.positions h il)[t]? <;> rfl

/-- the populated slots of the header model are those of `populated` on the stored inline-number array -/
theorem positions_eq_populated (h : HeaderReads.HFile) (il : Nat) :
    HeaderReads.positions h il = populated (HeaderReads.rawArray h il) := by
  unfold HeaderReads.positions populated HeaderReads.rawArray
  rw [List.length_map, List.length_range]
  apply List.filter_congr
  intro p hp
  have hp' : p < h.grid := List.mem_range.mp hp
  simp [List.getD, hp']

/-- the trace count never exceeds the grid size -/
theorem tracecount_le_grid (stored : List Int) : tracecount stored ≤ stored.length := by
  unfold tracecount populated
  exact (List.length_filter_le _ _).trans (by simp)

/-- **ordinals are answered exactly below the trace count**: an ordinal below the trace count maps to a populated slot of
the grid (inside the grid, non-zero inline number); an ordinal at or beyond it is refused (`none` = IndexError) — never a
hole, never a slot outside the grid -/
theorem ordinal_answered_iff (stored : List Int) (i : Nat) :
    (i < tracecount stored → ∃ p, ordinalToGrid stored i = some p ∧ p < stored.length ∧ stored.getD p 0 ≠ 0)
    ∧ (tracecount stored ≤ i → ordinalToGrid stored i = none) := by
  unfold ordinalToGrid tracecount
  constructor
  · intro h
    refine ⟨(populated stored)[i], List.getElem?_eq_getElem h, ?_⟩
    exact (mem_populated stored _).mp (List.getElem_mem h)
  · intro h
    exact List.getElem?_eq_none h

/-- distinct ordinals are distinct traces: the map from ordinals to grid slots is injective and order preserving -/
theorem ordinal_strictly_increasing (stored : List Int) (i j p q : Nat) (hij : i < j)
    (hi : ordinalToGrid stored i = some p) (hj : ordinalToGrid stored j = some q) : p < q := by
  unfold ordinalToGrid at hi hj
  obtain ⟨hi', rfl⟩ := List.getElem?_eq_some_iff.mp hi
  obtain ⟨hj', rfl⟩ := List.getElem?_eq_some_iff.mp hj
  exact List.pairwise_iff_getElem.mp (populated_sorted stored) i j hi' hj' hij

example : tracecount [5, 0, 7, 0] = 2 ∧ ordinalToGrid [5, 0, 7, 0] 1 = some 2 ∧ ordinalToGrid [5, 0, 7, 0] 2 = none := by decide

end Sgz.Props.C08
