import Sgz.Model.Emul
import Mathlib.Tactic.Linarith
/-!
# C13 — segyio emulation: subscript resolution

`Model/Emul.lean` mirrors `accessors.py` (ordinal accessors and line-number slices) and, separately, segyio's own line
slicing (`segyio/line.py`).  Theorems, for every axis (any set of line numbers, ascending or descending, negative numbers
included) and every slice (every combination of omitted / present / negative start, stop, step):

* `line_slices_match_segyio` — the emulator visits exactly the line numbers segyio visits, in the same order (segyio's
  truthiness shortcut in `sanitize_slice` is shown to make no difference);
* `ordinal_slice_in_range` — an ordinal slice (`trace[a:b:c]`, `header[...]`, `depth_slice[...]`) only ever hands ordinals in
  `[0, len)` to the read method, as Python's `range(*slice.indices(len))` does, and refuses step 0;
* `negative_ordinal` — a negative integer subscript denotes `len + k`; it is in range exactly when `-len ≤ k`.

`sliceIndices` and `pyRange` are tied to CPython by the correspondence check (random slices through the real
`slice.indices` / `range`), the accessors to `seismic_zfp.open` and `segyio.open` on generated files.
-/
namespace Sgz.Props.C13
open Sgz Emul

theorem line_slices_match_segyio (keys : List Int) (s : PySlice) : Emul.lineSlice keys s = Segyio.lineSlice keys s := by
  obtain ⟨st, sp, se⟩ := s
  unfold Emul.lineSlice Segyio.lineSlice Segyio.sanitizeSlice
  -- the shortcut is only taken when all three are present (and non-zero); then the defaults are not used anyway
  cases st <;> cases sp <;> cases se <;> simp

theorem pyRange_mem (a b c x : Int) (hx : x ∈ pyRange a b c) :
    (0 < c → a ≤ x ∧ x < b) ∧ (c < 0 → b < x ∧ x ≤ a) := by
  unfold pyRange at hx
  simp only [List.mem_map, List.mem_range] at hx
  obtain ⟨k, hk, rfl⟩ := hx
  unfold rangeLen at hk
  constructor
  · intro hc
    have hc' : ¬ (c < 0) := by omega
    simp only [hc, if_true] at hk
    by_cases hab : a < b
    · simp only [hab, if_true] at hk
      have hk' : (k : Int) ≤ (b - a - 1) / c := by omega
      have h1 : (b - a - 1) / c * c ≤ b - a - 1 := Int.ediv_mul_le _ (by omega)
      have h2 : (k : Int) * c ≤ (b - a - 1) / c * c := Int.mul_le_mul_of_nonneg_right hk' (by omega)
      have h3 : 0 ≤ c * (k : Int) := Int.mul_nonneg (by omega) (by omega)
      have e : c * (k : Int) = (k : Int) * c := Int.mul_comm _ _
      omega
    · simp [hab] at hk
  · intro hc
    have hc' : ¬ (c > 0) := by omega
    simp only [hc', if_false, hc, if_true] at hk
    by_cases hab : b < a
    · simp only [hab, if_true] at hk
      have hk' : (k : Int) ≤ (a - b - 1) / (-c) := by omega
      have h1 : (a - b - 1) / (-c) * (-c) ≤ a - b - 1 := Int.ediv_mul_le _ (by omega)
      have h2 : (k : Int) * (-c) ≤ (a - b - 1) / (-c) * (-c) := Int.mul_le_mul_of_nonneg_right hk' (by omega)
      have h3 : 0 ≤ (-c) * (k : Int) := Int.mul_nonneg (by omega) (by omega)
      have e : (-c) * (k : Int) = (k : Int) * (-c) := Int.mul_comm _ _
      have e2 : c * (k : Int) = -((-c) * (k : Int)) := by rw [Int.neg_mul, Int.neg_neg]
      omega
    · simp [hab] at hk

theorem sliceIndices_bounds (s : PySlice) (len : Nat) (a b c : Int) (h : sliceIndices s len = some (a, b, c)) :
    c ≠ 0 ∧ (0 < c → 0 ≤ a ∧ b ≤ len) ∧ (c < 0 → a ≤ (len : Int) - 1 ∧ -1 ≤ b) := by
  unfold sliceIndices at h
  dsimp only at h
  split at h
  · cases h
  · rename_i hc
    simp only [Option.some.injEq, Prod.mk.injEq] at h
    obtain ⟨ha, hb, hcc⟩ := h
    subst hcc
    refine ⟨hc, ?_, ?_⟩
    · intro hpos
      have hn : ¬ (s.step.getD 1 < 0) := by omega
      simp only [hn, if_false] at ha hb
      constructor
      · rw [← ha]; cases s.start with
        | none => simp
        | some v => simp only; split <;> split <;> omega
      · rw [← hb]; cases s.stop with
        | none => simp
        | some v => simp only; split <;> split <;> omega
    · intro hneg
      simp only [hneg, if_true] at ha hb
      constructor
      · rw [← ha]; cases s.start with
        | none => simp
        | some v => simp only; split <;> split <;> omega
      · rw [← hb]; cases s.stop with
        | none => simp
        | some v => simp only; split <;> split <;> omega

/-- an ordinal slice never reaches outside `[0, len)` -/
theorem ordinal_slice_in_range (len : Nat) (s : PySlice) (xs : List Int) (h : accessorSlice len s = some xs) :
    ∀ x ∈ xs, 0 ≤ x ∧ x < len := by
  unfold accessorSlice at h
  cases hi : sliceIndices s len with
  | none => simp [hi] at h
  | some t =>
    obtain ⟨a, b, c⟩ := t
    simp only [hi, Option.map_some, Option.some.injEq] at h
    subst h
    obtain ⟨hc, hpos, hneg⟩ := sliceIndices_bounds s len a b c hi
    intro x hx
    obtain ⟨m1, m2⟩ := pyRange_mem a b c x hx
    rcases Int.lt_or_gt_of_ne hc with hlt | hgt
    · have := m2 hlt; have := hneg hlt; omega
    · have := m1 hgt; have := hpos hgt; omega

theorem step_zero_refused (len : Nat) (a b : Option Int) : accessorSlice len ⟨a, b, some 0⟩ = none := by
  simp [accessorSlice, sliceIndices]

theorem negative_ordinal (len : Nat) (k : Int) (hk : k < 0) :
    accessorInt len k = len + k ∧ ((0 ≤ accessorInt len k ∧ accessorInt len k < len) ↔ -(len : Int) ≤ k) := by
  unfold accessorInt; rw [if_pos hk]; omega

theorem nonnegative_ordinal (len : Nat) (k : Int) (hk : 0 ≤ k) : accessorInt len k = k := by
  unfold accessorInt; rw [if_neg (by omega)]

-- concrete behaviour (also segyio's quirks): descending axis, full slice ascends by number; negative numbers
example : Emul.lineSlice [9, 7, 5, 3] ⟨none, none, none⟩ = some [3, 5, 7, 9] := by decide
example : Emul.lineSlice [9, 7, 5, 3] ⟨some 7, none, some (-2)⟩ = some [7, 5, 3] := by decide
example : Emul.lineSlice [1, 2, 3, 4] ⟨some 2, some 4, none⟩ = some [2, 3] := by decide
example : accessorSlice 5 ⟨none, none, some (-2)⟩ = some [4, 2, 0] := by decide
example : accessorSlice 5 ⟨some (-100), some 100, none⟩ = some [0, 1, 2, 3, 4] := by decide

/-- `acc[:]` hands every ordinal `0 … len−1`, each once, in order -/
theorem full_slice_is_every_ordinal (len : Nat) :
    accessorSlice len ⟨none, none, none⟩ = some ((List.range len).map fun (k : Nat) => (k : Int)) := by
  unfold accessorSlice sliceIndices
  simp only [Option.getD_none, show (1 : Int) ≠ 0 by decide, if_false, show ¬ ((1 : Int) < 0) by decide, Option.map_some]
  unfold pyRange rangeLen
  simp only [show (1 : Int) > 0 by decide, if_true]
  congr 1
  by_cases h : (0 : Int) < (len : Int)
  · rw [if_pos h]
    have : ((len : Int) - 0 - 1) / 1 + 1 = (len : Int) := by omega
    rw [this, Int.toNat_natCast]
    apply List.map_congr_left; intro k _; omega
  · rw [if_neg h]
    have : len = 0 := by omega
    subst this; rfl

/-- `acc[::-1]` hands every ordinal, last first -/
theorem reversed_slice_is_every_ordinal (len : Nat) :
    accessorSlice len ⟨none, none, some (-1)⟩ = some ((List.range len).map fun (k : Nat) => (len : Int) - 1 - (k : Int)) := by
  unfold accessorSlice sliceIndices
  simp only [Option.getD_some, show (-1 : Int) ≠ 0 by decide, if_false, show ((-1 : Int) < 0) by decide, if_true, Option.map_some]
  unfold pyRange rangeLen
  simp only [show ¬ ((-1 : Int) > 0) by decide, if_false, show ((-1 : Int) < 0) by decide, if_true]
  congr 1
  by_cases h : (-1 : Int) < (len : Int) - 1
  · rw [if_pos h]
    have : ((len : Int) - 1 - -1 - 1) / (- -1) + 1 = (len : Int) := by
      have e : (- (-1 : Int)) = 1 := by decide
      rw [e]; omega
    rw [this, Int.toNat_natCast]
    apply List.map_congr_left; intro k _; omega
  · rw [if_neg h]
    have : len = 0 := by omega
    subst this; rfl

/-- an integer subscript is in range exactly for `−len ≤ k < len` -/
theorem int_ordinal_in_range_iff (len : Nat) (k : Int) :
    (0 ≤ accessorInt len k ∧ accessorInt len k < len) ↔ (-(len : Int) ≤ k ∧ k < len) := by
  unfold accessorInt; split <;> omega

end Sgz.Props.C13
