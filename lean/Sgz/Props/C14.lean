import Sgz.Proofs.Reader
import Sgz.Proofs.Coords
import Sgz.Proofs.HeaderReads
/-!
# C14 — bounds safety

Every read method of the model (`Model/Reader.lean`, mirroring the guards of `read.py`), given an ordinal, box or sample
window that does not lie within the real extent, returns `IndexError` (`Err.index`), or the dimensionality error for a
2D/3D mismatch; the complementary in-range theorems (`Props/C02.lean`) show that everything returned is decoded from the
unit of a *real* voxel.  Arguments are arbitrary integers.  Empty and inverted ranges count as out of range.
-/
namespace Sgz.Props.C14
open Sgz Geo

theorem readInline_refuses (g : Geo) (hg : g.Valid) (k : Int) (h : ¬(0 ≤ k ∧ k < g.n0)) :
    ∃ e, Reader.readInline g k = .error e ∧ e = .index := by
  unfold Reader.readInline
  have : (!(decide (0 ≤ k) && decide (k < (g.n0 : Int)))) = true := by simp; omega
  simp [not2d_of_valid g hg, this]

theorem readCrossline_refuses (g : Geo) (hg : g.Valid) (k : Int) (h : ¬(0 ≤ k ∧ k < g.n1)) :
    Reader.readCrossline g k = .error .index := by
  unfold Reader.readCrossline
  have : (!(decide (0 ≤ k) && decide (k < (g.n1 : Int)))) = true := by simp; omega
  simp [not2d_of_valid g hg, this]

theorem readZslice_refuses (g : Geo) (hg : g.Valid) (k : Int) (h : ¬(0 ≤ k ∧ k < g.n2)) :
    Reader.readZslice g k = .error .index := by
  unfold Reader.readZslice
  have : (!(decide (0 ≤ k) && decide (k < (g.n2 : Int)))) = true := by simp; omega
  simp [not2d_of_valid g hg, this]

/-- a box is in range iff on every axis `0 ≤ lo < hi ≤ n` (real extents; no `access_padding`) -/
def boxInRange (g : Geo) (i0 i1 x0 x1 z0 z1 : Int) : Prop :=
  (0 ≤ i0 ∧ i0 < i1 ∧ i1 ≤ g.n0) ∧ (0 ≤ x0 ∧ x0 < x1 ∧ x1 ≤ g.n1) ∧ (0 ≤ z0 ∧ z0 < z1 ∧ z1 ≤ g.n2)

theorem readSubvolume_refuses (g : Geo) (hg : g.Valid) (i0 i1 x0 x1 z0 z1 : Int)
    (h : ¬ boxInRange g i0 i1 x0 x1 z0 z1) :
    Reader.readSubvolume g false i0 i1 x0 x1 z0 z1 = .error .index := by
  unfold Reader.readSubvolume
  simp only [not2d_of_valid g hg, Bool.false_eq_true, if_false]
  by_cases h0 : Reader.rangeOk i0 i1 g.n0 = true
  · by_cases h1 : Reader.rangeOk x0 x1 g.n1 = true
    · by_cases h2 : Reader.rangeOk z0 z1 g.n2 = true
      · exfalso; apply h
        rw [rangeOk_iff] at h0 h1 h2
        exact ⟨h0, h1, h2⟩
      · simp [h0, h1, h2]
    · simp [h0, h1]
  · simp [h0]

theorem volume_reads_refused_on_2d (g : Geo) (hg : g.Valid2d) (k : Int) (i0 i1 x0 x1 z0 z1 : Int)
    (rng win : Option (Int × Int)) :
    Reader.readInline g k = .error .dim ∧ Reader.readCrossline g k = .error .dim ∧ Reader.readZslice g k = .error .dim ∧
    Reader.readSubvolume g false i0 i1 x0 x1 z0 z1 = .error .dim ∧ Reader.readVolume g = .error .dim ∧
    Reader.readCorrelatedDiagonal g k rng win = .error .dim ∧ Reader.readAnticorrelatedDiagonal g k rng win = .error .dim := by
  have h := is2d_of_valid2d g hg
  simp [Reader.readInline, Reader.readCrossline, Reader.readZslice, Reader.readSubvolume, Reader.readVolume,
    Reader.readCorrelatedDiagonal, Reader.readAnticorrelatedDiagonal, h]

theorem subplane_refused_on_3d (g : Geo) (hg : g.Valid) (t0 t1 z0 z1 : Int) :
    Reader.readSubplane g false t0 t1 z0 z1 = .error .dim := by
  simp [Reader.readSubplane, not2d_of_valid g hg]

theorem readSubplane_refuses (g : Geo) (hg : g.Valid2d) (t0 t1 z0 z1 : Int)
    (h : ¬((0 ≤ t0 ∧ t0 < t1 ∧ t1 ≤ g.n1) ∧ (0 ≤ z0 ∧ z0 < z1 ∧ z1 ≤ g.n2))) :
    Reader.readSubplane g false t0 t1 z0 z1 = .error .index := by
  unfold Reader.readSubplane
  simp only [is2d_of_valid2d g hg, Bool.not_true, Bool.false_eq_true, if_false]
  by_cases h1 : Reader.rangeOk t0 t1 g.n1 = true
  · by_cases h2 : Reader.rangeOk z0 z1 g.n2 = true
    · exfalso; apply h
      rw [rangeOk_iff] at h1 h2
      exact ⟨h1, h2⟩
    · simp [h1, h2]
  · simp [h1]

/-- trace reads (3D and 2D): a sample window that is empty, inverted or reaches beyond the trace is refused,
whatever the trace index -/
theorem getTrace_refuses_window (g : Geo) (t a b : Int) (h : ¬(0 ≤ a ∧ a < b ∧ b ≤ g.n2)) :
    Reader.getTrace g t a b = .error .index := by
  unfold Reader.getTrace
  have : Reader.windowOk g a b = false := by
    simp only [Reader.windowOk, Bool.and_eq_false_iff, decide_eq_false_iff_not]; omega
  simp [this]

/-- … and so is a trace index outside the real traces (3D: `n0·n1` grid traces; 2D: `n1` = trace count, *not* the
padded trace group) -/
theorem getTrace_refuses_index (g : Geo) (t a b : Int)
    (h : ¬(0 ≤ t ∧ t < (if g.is2d then (g.n1 : Int) else (g.n0 : Int) * g.n1))) :
    Reader.getTrace g t a b = .error .index := by
  unfold Reader.getTrace
  by_cases hw : Reader.windowOk g a b = true
  · by_cases h2 : g.is2d = true
    · simp only [h2, if_true] at h
      have : (!(decide (0 ≤ t) && decide (t < (g.n1 : Int)))) = true := by simp; omega
      simp [hw, h2, this]
    · simp only [h2, Bool.false_eq_true, if_false] at h
      have : (!(decide (0 ≤ t) && decide (t < (g.n0 : Int) * (g.n1 : Int)))) = true := by simp; omega
      simp [hw, h2, this]
  · simp [hw]

theorem correlatedDiagonal_refuses (g : Geo) (hg : g.Valid) (c : Int) (rng win : Option (Int × Int))
    (h : ¬(-(g.n1 : Int) < c ∧ c < g.n0)) :
    Reader.readCorrelatedDiagonal g c rng win = .error .index := by
  unfold Reader.readCorrelatedDiagonal
  have : (!(decide (-(g.n1 : Int) < c) && decide (c < (g.n0 : Int)))) = true := by simp; omega
  simp [not2d_of_valid g hg, this]

theorem correlatedDiagonal_refuses_range (g : Geo) (hg : g.Valid) (c lo hi : Int) (win : Option (Int × Int))
    (h : ¬(0 ≤ lo ∧ lo < hi ∧ hi ≤ Reader.cdLen c g.n0 g.n1)) :
    Reader.readCorrelatedDiagonal g c (some (lo, hi)) win = .error .index := by
  unfold Reader.readCorrelatedDiagonal
  simp only [not2d_of_valid g hg, Bool.false_eq_true, if_false]
  split
  · rfl
  · by_cases h1 : (!(decide (0 ≤ lo) && decide (lo < Reader.cdLen c g.n0 g.n1))) = true
    · simp [h1]
    · by_cases h2 : (!(decide (0 < hi) && decide (hi ≤ Reader.cdLen c g.n0 g.n1))) = true
      · simp [h1, h2]
      · by_cases h3 : (!decide (lo < hi)) = true
        · simp [h1, h2, h3]
        · exfalso; apply h
          simp at h1 h2 h3
          omega

theorem correlatedDiagonal_refuses_window (g : Geo) (hg : g.Valid) (c : Int) (rng : Option (Int × Int)) (s e : Int)
    (h : ¬(0 ≤ s ∧ s < e ∧ e ≤ g.n2)) :
    ∃ err, Reader.readCorrelatedDiagonal g c rng (some (s, e)) = .error err := by
  have hw : Reader.windowOk g s e = false := by
    simp only [Reader.windowOk, Bool.and_eq_false_iff, decide_eq_false_iff_not]; omega
  unfold Reader.readCorrelatedDiagonal
  simp only [not2d_of_valid g hg, Bool.false_eq_true, if_false]
  split
  · exact ⟨_, rfl⟩
  · split
    · exact ⟨_, rfl⟩
    · simp [hw]

theorem anticorrelatedDiagonal_refuses (g : Geo) (hg : g.Valid) (a : Int) (rng win : Option (Int × Int))
    (h : ¬(0 ≤ a ∧ a < (g.n0 : Int) + g.n1 - 1)) :
    Reader.readAnticorrelatedDiagonal g a rng win = .error .index := by
  unfold Reader.readAnticorrelatedDiagonal
  have : (!(decide (0 ≤ a) && decide (a < (g.n0 : Int) + (g.n1 : Int) - 1))) = true := by simp; omega
  simp [not2d_of_valid g hg, this]

-- non-vacuity: a valid geometry, and concrete refused / accepted calls
def gEx : Geo := { n0 := 5, n1 := 6, n2 := 7, b0 := 4, b1 := 4, b2 := 256, u := 64 }
example : gEx.Valid := by decide
example : (Reader.readInline gEx 5 matches .error .index) = true := by decide
example : (Reader.getTrace gEx 3 6 9 matches .error .index) = true := by decide
example : (Reader.getTrace gEx 3 2 2 matches .error .index) = true := by decide
example : (Reader.readSubvolume gEx false 0 5 0 6 7 8 matches .error .index) = true := by decide

/-- a line number that is not on the axis is refused with IndexError (never resolved to a neighbouring line) -/
theorem inline_number_absent_refused (g : Geo) (hg : g.Valid) (il0 dil c : Int)
    (h : ∀ k : Nat, k < g.n0 → c ≠ il0 + dil * (k : Int)) : Coords.readInlineNumber g il0 dil c = .error .index := by
  unfold Coords.readInlineNumber
  rw [not2d_of_valid g hg, Coords.coordToIndex_absent il0 dil g.n0 c h]; rfl

theorem crossline_number_absent_refused (g : Geo) (hg : g.Valid) (xl0 dxl c : Int)
    (h : ∀ k : Nat, k < g.n1 → c ≠ xl0 + dxl * (k : Int)) : Coords.readCrosslineNumber g xl0 dxl c = .error .index := by
  unfold Coords.readCrosslineNumber
  rw [not2d_of_valid g hg, Coords.coordToIndex_absent xl0 dxl g.n1 c h]; rfl

/-! ### trace headers (Model/HeaderReads): after any history of header operations on the reader, in either padding mode -/

/-- unstructured 3D file: a header ordinal at or beyond the number of populated grid slots is refused -/
theorem header_beyond_tracecount (h : HeaderReads.HFile) (il : Nat) (st : HeaderReads.HSt)
    (hinv : HeaderReads.HInv h il st) (t : Nat) (loadAll : Bool)
    (h3 : h.is3d = true) (hs : h.structured = false) (hsto : HeaderReads.hasStored h = true)
    (ht : (HeaderReads.positions h il).length ≤ t) :
    HeaderReads.HR.vals (HeaderReads.genTraceHeader h il st t loadAll).2 = .error .index := by
  rw [(HeaderReads.genTraceHeader_spec h il st hinv t loadAll (fun x => by rw [hs] at x; cases x) (fun _ _ => hsto)).2,
    HeaderReads.headerCanon_unstructured h il t h3 hs hsto, List.getElem?_eq_none ht]

/-- … and one below it returns the header stored at the grid slot of that trace -/
theorem header_within_tracecount (h : HeaderReads.HFile) (il : Nat) (st : HeaderReads.HSt)
    (hinv : HeaderReads.HInv h il st) (t : Nat) (loadAll : Bool)
    (h3 : h.is3d = true) (hs : h.structured = false) (hsto : HeaderReads.hasStored h = true)
    (ht : t < (HeaderReads.positions h il).length) :
    HeaderReads.HR.vals (HeaderReads.genTraceHeader h il st t loadAll).2
      = .ok (HeaderReads.headerAt h ((HeaderReads.positions h il)[t])) := by
  rw [(HeaderReads.genTraceHeader_spec h il st hinv t loadAll (fun x => by rw [hs] at x; cases x) (fun _ _ => hsto)).2,
    HeaderReads.headerCanon_unstructured h il t h3 hs hsto, List.getElem?_eq_getElem ht]

/-- structured 3D files and 2D lines: a header ordinal at or beyond the trace count is refused -/
theorem header_beyond_grid (h : HeaderReads.HFile) (il : Nat) (st : HeaderReads.HSt)
    (hinv : HeaderReads.HInv h il st) (t : Nat) (loadAll : Bool)
    (hwf : h.structured = true → h.is3d = true) (hd : (h.is3d && !h.structured) = false)
    (hsto : HeaderReads.hasStored h = true) (ht : h.grid ≤ t) :
    HeaderReads.HR.vals (HeaderReads.genTraceHeader h il st t loadAll).2 = .error .index := by
  rw [(HeaderReads.genTraceHeader_spec h il st hinv t loadAll hwf (fun a b => by simp [a, b] at hd)).2,
    HeaderReads.headerCanon_direct h il t hd hsto, if_neg (Nat.not_lt.mpr ht)]

/-- every file (3D structured or not, 2D line, with or without stored header arrays), every reader state: a header ordinal
at or beyond the grid (3D) / the trace count (2D) is refused before anything is read -/
theorem header_ordinal_beyond_extent (h : HeaderReads.HFile) (il : Nat) (st : HeaderReads.HSt) (t : Nat) (loadAll : Bool)
    (ht : h.grid ≤ t) :
    HeaderReads.genTraceHeader h il st t loadAll = (st, .error .index) := by
  unfold HeaderReads.genTraceHeader
  have : decide (t < h.grid) = false := by simp; omega
  simp [this]

end Sgz.Props.C14
