import Sgz.Model.Version
/-!
# C03 — container conformance: the version word

The recorded format version is the writing library's version under an encoding that is a bijection and preserves
release order, so that a reader applies the conventions of the version that wrote the file.
-/
namespace Sgz.Props.C03
open Sgz Ver

/-- decoding an encoded version gives it back, for every major and all minor, patch < 1024, both flags -/
theorem decode_encode (v : Ver) (h : v.Wf) : decode (encode v) = v := by
  obtain ⟨maj, mi, pa, dev⟩ := v
  obtain ⟨h1, h2⟩ := h
  dsimp only at h1 h2
  cases dev <;> simp [decode, encode] <;> omega

/-- every 32-bit (indeed every) word is the encoding of what it decodes to: the encoding is onto -/
theorem encode_decode (n : Nat) : encode (decode n) = n := by
  simp only [decode, encode]
  by_cases h : n % 2 = 0 <;> simp [h] <;> omega

/-- decoded versions are always well-formed -/
theorem decode_wf (n : Nat) : (decode n).Wf := by
  simp only [decode, Wf]; constructor <;> omega

/-- the encoding is injective on well-formed versions (with `encode_decode`: a bijection) -/
theorem encode_injective (a b : Ver) (ha : a.Wf) (hb : b.Wf) (h : encode a = encode b) : a = b := by
  rw [← decode_encode a ha, ← decode_encode b hb, h]

/-- the encoding preserves and reflects release order: comparison through the encoding *is* release order -/
theorem encode_lt_iff (a b : Ver) (ha : a.Wf) (hb : b.Wf) : encode a < encode b ↔ Ver.lt a b := by
  obtain ⟨am, ai, ap, ad⟩ := a
  obtain ⟨bm, bi, bp, bd⟩ := b
  obtain ⟨ha1, ha2⟩ := ha
  obtain ⟨hb1, hb2⟩ := hb
  dsimp only at ha1 ha2 hb1 hb2
  simp only [encode, Ver.lt]
  cases ad <;> cases bd <;> simp <;> omega

/-- gate "footer padded, trace-count field present": exactly the versions after release 0.2.1 -/
theorem paddedFooter_iff (n : Nat) : paddedFooter n = true ↔ Ver.lt v_0_2_1 (decode n) := by
  unfold paddedFooter gt
  rw [decide_eq_true_iff]
  exact encode_lt_iff v_0_2_1 (decode n) (by simp [Wf, v_0_2_1]) (decode_wf n)

/-- gate "sample interval in microseconds": exactly the versions after release 0.1.6 -/
theorem microseconds_iff (n : Nat) : microseconds n = true ↔ Ver.lt v_0_1_6 (decode n) := by
  unfold microseconds gt
  rw [decide_eq_true_iff]
  exact encode_lt_iff v_0_1_6 (decode n) (by simp [Wf, v_0_1_6]) (decode_wf n)

/-- a file stamped by a writer of version `v` is read under `v`'s own conventions (the two gates evaluated on the
stored word equal the gates evaluated on `v`) -/
theorem gates_of_writer (v : Ver) (h : v.Wf) :
    paddedFooter (encode v) = gt v v_0_2_1 ∧ microseconds (encode v) = gt v v_0_1_6 := by
  simp [paddedFooter, microseconds, decode_encode v h]

-- non-vacuity: the hypotheses are met by real versions, and the gates separate their neighbours
example : (⟨0, 2, 9, false⟩ : Ver).Wf ∧ paddedFooter (encode ⟨0, 2, 2, true⟩) = true
    ∧ paddedFooter (encode ⟨0, 2, 1, false⟩) = false ∧ paddedFooter (encode ⟨0, 2, 1, true⟩) = false
    ∧ microseconds (encode ⟨0, 1, 7, true⟩) = true ∧ microseconds (encode ⟨0, 1, 6, false⟩) = false := by
  decide

/-- overflow of a field into its neighbour is what well-formedness excludes: witness that it is needed -/
example : decode (encode ⟨0, 1024, 0, false⟩) ≠ ⟨0, 1024, 0, false⟩ := by decide

/-! ### version strings -/
example : parse "0.2.9" = some ⟨0, 2, 9, false⟩ := by decide
example : parse "100.23.9rc2" = some ⟨100, 23, 9, true⟩ := by decide
example : parse "0.2.10.dev3+g1a2b3c4.d20240101" = some ⟨0, 2, 10, true⟩ := by decide
example : parse "0.2.9+d20240101" = some ⟨0, 2, 9, true⟩ := by decide
example : parse "0.1.dev1+g45bcf9689" = some ⟨0, 1, 0, true⟩ := by decide

end Sgz.Props.C03
