import Sgz.Model.Version
import Sgz.Model.Container
import Sgz.Proofs.Layout
import Sgz.Proofs.Header
import Mathlib.Tactic.Ring
import Sgz.Proofs.Derived
/-!
# C03 — container conformance: the version word, section sizes and footer offsets

The recorded format version is the writing library's version under an encoding that is a bijection and preserves
release order, so that a reader applies the conventions of the version that wrote the file.
-/
namespace Sgz.Props.C03
open Sgz Ver

/-- decoding an encoded version gives it back, for every major and all minor, patch < 1024, both flags -/
theorem decode_encode (v : Ver) (h : v.Wf) : decode (encode v) = v := by
  obtain ⟨maj, mi, pa, dev⟩ := v
  obtain ⟨h1, h2⟩ := h
  dsimp only at h1 h2
  cases dev <;> simp [decode, encode] <;> omega

/-- every 32-bit (indeed every) word is the encoding of what it decodes to: the encoding is onto -/
theorem encode_decode (n : Nat) : encode (decode n) = n := by
  simp only [decode, encode]
  by_cases h : n % 2 = 0 <;> simp [h] <;> omega

/-- decoded versions are always well-formed -/
theorem decode_wf (n : Nat) : (decode n).Wf := by
  simp only [decode, Wf]; constructor <;> omega

/-- the encoding is injective on well-formed versions (with `encode_decode`: a bijection) -/
theorem encode_injective (a b : Ver) (ha : a.Wf) (hb : b.Wf) (h : encode a = encode b) : a = b := by
  rw [← decode_encode a ha, ← decode_encode b hb, h]

/-- the encoding preserves and reflects release order: comparison through the encoding *is* release order -/
theorem encode_lt_iff (a b : Ver) (ha : a.Wf) (hb : b.Wf) : encode a < encode b ↔ Ver.lt a b := by
  obtain ⟨am, ai, ap, ad⟩ := a
  obtain ⟨bm, bi, bp, bd⟩ := b
  obtain ⟨ha1, ha2⟩ := ha
  obtain ⟨hb1, hb2⟩ := hb
  dsimp only at ha1 ha2 hb1 hb2
  simp only [encode, Ver.lt]
  cases ad <;> cases bd <;> simp <;> omega

/-- gate "footer padded, trace-count field present": exactly the versions after release 0.2.1 -/
theorem paddedFooter_iff (n : Nat) : paddedFooter n = true ↔ Ver.lt v_0_2_1 (decode n) := by
  unfold paddedFooter gt
  rw [decide_eq_true_iff]
  exact encode_lt_iff v_0_2_1 (decode n) (by simp [Wf, v_0_2_1]) (decode_wf n)

/-- gate "sample interval in microseconds": exactly the versions after release 0.1.6 -/
theorem microseconds_iff (n : Nat) : microseconds n = true ↔ Ver.lt v_0_1_6 (decode n) := by
  unfold microseconds gt
  rw [decide_eq_true_iff]
  exact encode_lt_iff v_0_1_6 (decode n) (by simp [Wf, v_0_1_6]) (decode_wf n)

/-- a file stamped by a writer of version `v` is read under `v`'s own conventions (the two gates evaluated on the
stored word equal the gates evaluated on `v`) -/
theorem gates_of_writer (v : Ver) (h : v.Wf) :
    paddedFooter (encode v) = gt v v_0_2_1 ∧ microseconds (encode v) = gt v v_0_1_6 := by
  simp [paddedFooter, microseconds, decode_encode v h]

-- non-vacuity: the hypotheses are met by real versions, and the gates separate their neighbours
example : (⟨0, 2, 9, false⟩ : Ver).Wf ∧ paddedFooter (encode ⟨0, 2, 2, true⟩) = true
    ∧ paddedFooter (encode ⟨0, 2, 1, false⟩) = false ∧ paddedFooter (encode ⟨0, 2, 1, true⟩) = false
    ∧ microseconds (encode ⟨0, 1, 7, true⟩) = true ∧ microseconds (encode ⟨0, 1, 6, false⟩) = false := by
  decide

/-- overflow of a field into its neighbour is what well-formedness excludes: witness that it is needed -/
example : decode (encode ⟨0, 1024, 0, false⟩) ≠ ⟨0, 1024, 0, false⟩ := by decide

/-! ### version strings -/
example : parse "0.2.9" = some ⟨0, 2, 9, false⟩ := by decide
example : parse "100.23.9rc2" = some ⟨100, 23, 9, true⟩ := by decide
example : parse "0.2.10.dev3+g1a2b3c4.d20240101" = some ⟨0, 2, 10, true⟩ := by decide
example : parse "0.2.9+d20240101" = some ⟨0, 2, 9, true⟩ := by decide
example : parse "0.1.dev1+g45bcf9689" = some ⟨0, 1, 0, true⟩ := by decide


/-! ### section sizes and footer offsets -/
open Container Geo

/-- one block is 4096 bytes and the data section is exactly the stated number of blocks: with `u = 2q` bytes per unit
(3D, `q = 4·rate`) the header's block count is the number of blocks of the padded block grid, with **no remainder** at
any of the three divisions -/
theorem disk_blocks_exact (g : Geo) (hg : g.Valid) (q : Nat) (hu : g.u = 2 * q) :
    diskBlocks g q = g.NB0 * g.NB1 * g.NB2 ∧ q * g.P2 * g.P1 * g.P0 = 4 * 8 * 4096 * (g.NB0 * g.NB1 * g.NB2) := by
  have hc := cpb_u hg
  unfold Geo.cpb at hc
  obtain ⟨a, ha⟩ := dvd0 hg
  obtain ⟨b, hb⟩ := dvd1 hg
  obtain ⟨c, hc'⟩ := dvd2 hg
  have e0 := P0_eq hg
  have e1 := P1_eq hg
  have e2 := P2_eq hg
  rw [ha, hb, hc', Nat.mul_div_cancel_left _ (by decide : 0 < 4), Nat.mul_div_cancel_left _ (by decide : 0 < 4),
    Nat.mul_div_cancel_left _ (by decide : 0 < 4), hu] at hc
  have key : q * g.P2 * g.P1 * g.P0 = 4 * 8 * 4096 * (g.NB0 * g.NB1 * g.NB2) := by
    rw [e0, e1, e2, ha, hb, hc']
    calc q * (g.NB2 * (4 * c)) * (g.NB1 * (4 * b)) * (g.NB0 * (4 * a))
        = 32 * (a * b * c * (2 * q)) * (g.NB0 * g.NB1 * g.NB2) := by ring
      _ = 4 * 8 * 4096 * (g.NB0 * g.NB1 * g.NB2) := by rw [hc]
  refine ⟨?_, key⟩
  unfold diskBlocks
  rw [key]
  generalize g.NB0 * g.NB1 * g.NB2 = N
  omega

theorem footerArrayBytes_eq_pad (len : Nat) : footerArrayBytes len = pad len 512 := by
  unfold footerArrayBytes pad
  by_cases h : len % 512 = 0
  · simp [h]
  · simp only [h, if_false]
    have := Nat.div_add_mod len 512
    have := Nat.mod_lt len (by decide : 0 < 512)
    omega

/-- the footer holds each array at the offset a reader of the file's own version derives — for files stamped after
release 0.2.1 (every file today's writers produce) -/
theorem footer_offsets_agree (version nHB d len k : Nat) (hv : paddedFooter version = true) :
    writerFooterOffset nHB d len k = readerFooterOffset version nHB d len k := by
  unfold writerFooterOffset readerFooterOffset
  rw [hv, footerArrayBytes_eq_pad]; simp

/-- an array whose length is already a multiple of 512 gets no padding (a pad of `512 − len % 512` would add a page) -/
theorem no_extra_page (len : Nat) (h : len % 512 = 0) : footerArrayBytes len = len := by
  unfold footerArrayBytes; simp [h]

theorem file_length_is_sum (nHB d len n : Nat) :
    fileLength nHB d len n = writerFooterOffset nHB d len n ∧
    (∀ k, k < n → writerFooterOffset nHB d len k + footerArrayBytes len ≤ fileLength nHB d len n) := by
  refine ⟨rfl, ?_⟩
  intro k hk
  unfold writerFooterOffset fileLength
  have : (k + 1) * footerArrayBytes len ≤ n * footerArrayBytes len := Nat.mul_le_mul_right _ hk
  rw [Nat.add_mul, Nat.one_mul] at this
  omega

example : (⟨5, 6, 300, 4, 4, 256, 64⟩ : Geo).Valid ∧ diskBlocks ⟨5, 6, 300, 4, 4, 256, 64⟩ 32 = 2 * 2 * 2 := by decide
example : footerArrayBytes 512 = 512 ∧ footerArrayBytes 100 = 512 ∧ footerArrayBytes 513 = 1024 := by decide


/-! ### the fixed header fields -/

/-- the header states the true dimensions, axes, bit rate, blockshape, block count, array length/count, trace count and
version: whatever a writer states through `make_header` (values `struct.pack` accepts; rate one of 1/4 … 32) is what the
reader's parsers recover — every field, byte-exactly, including negative origins/increments read unsigned and wrapped -/
theorem header_roundtrip (f : Header.Fields) (h : Header.Bytes) (hq : Header.validRateQ f.q = true)
    (hm : Header.make f = some h) : Header.parse h = f := Header.parse_make f h hq hm

def fOk : Header.Fields :=
  { nHeaderBlocks := 2, nSamples := 5, nXl := 6, nIl := 7, zStart := -200, xl0 := 100, il0 := -3,
    interval := 1001, dXl := -2, dIl := 5, q := 1, b0 := 256, b1 := 128, b2 := 4, dataBlocks := 4,
    arrayBytes := 168, nArrays := 2, tracecount := 42, version := 4204562 }

/-- non-vacuity: negative origins, a descending axis, a reciprocal rate -/
example : (Header.make fOk).isSome = true ∧ Header.validRateQ fOk.q = true := by decide

/-- a field outside its 32-bit range is refused by the writer, not stored wrapped -/
example : Header.make { fOk with xl0 := 2147483648 } = none := by decide

/-! ### the header-word table (bytes 980 … 2047) -/

/-- the reader recovers exactly the rows the writer stored (`to_buffer` → `HeaderwordInfo(buffer=…)`), for any table whose
entries `struct.pack('<i')` accepts -/
theorem header_table_roundtrip (h : Header.Bytes) (rows : List Header.TRow)
    (hr : ∀ r ∈ rows, Header.i32 r.1 ∧ Header.i32 r.2.1 ∧ Header.i32 r.2.2) :
    Header.getTable (Header.putTable h rows) rows.length = rows := Header.getTable_putTable h rows hr

/-- storing the table changes no word before byte 980 (the fixed fields end at byte 76) and none from byte `980 + 12·rows`
on — with the 89 rows of the format that is byte 2048, the end of the first half of the block -/
theorem header_table_leaves_the_rest (h : Header.Bytes) (rows : List Header.TRow) (o : Nat)
    (ho : o + 4 ≤ 980 ∨ 980 + 12 * rows.length ≤ o) :
    Header.get32 (Header.putTable h rows) o = Header.get32 h o := Header.putTable_outside h rows o ho

example : Header.rowAt 88 + 12 = 2048 ∧ Header.tableAt + 12 * Header.tableRows = 2048 := by decide
example : Header.getTable (Header.putTable (fun _ => 0) [(1, 0, 1), (115, -7, 0), (189, 0, 1)]) 3
    = [(1, 0, 1), (115, -7, 0), (189, 0, 1)] := by decide

/-! ### closure: files derived from a conformant file are conformant (Model/Derived)

`Derived.Conformant` states what the specification asks of the fixed header fields of a 3D file: a valid geometry, the data
length `diskBlocks` of that geometry at the stated rate, header arrays of `4·n_il·n_xl` bytes, a trace count within the
grid.  The cropper's and the re-blocker's header patches keep it, for every accepted box / every supported source — so
every composition of conversions, crops and re-blocks yields a conformant header. -/

theorem cropped_file_conformant (f : Header.Fields) (hc : Derived.Conformant f) (b : Crop.Box)
    (hb : Crop.Aligned (Derived.geoOf f) b) (s : Bool) (p : Nat) (hp : p ≤ (b.i1 - b.i0) * (b.x1 - b.x0)) :
    Derived.Conformant (Derived.cropHeader f b s p) := Derived.crop_conformant f hc b hb s p hp

theorem reblocked_file_conformant (f : Header.Fields) (hc : Derived.Conformant f)
    (hs : Reblock.supported (Derived.geoOf f) = true) : Derived.Conformant (Derived.reblockHeader f) :=
  Derived.reblock_conformant f hc hs

/-- crop then re-block (when the crop is a supported source) stays conformant: closure composes -/
theorem crop_then_reblock_conformant (f : Header.Fields) (hc : Derived.Conformant f) (b : Crop.Box)
    (hb : Crop.Aligned (Derived.geoOf f) b) (s : Bool) (p : Nat) (hp : p ≤ (b.i1 - b.i0) * (b.x1 - b.x0))
    (hs : Reblock.supported (Derived.geoOf f) = true) :
    Derived.Conformant (Derived.reblockHeader (Derived.cropHeader f b s p)) := by
  apply Derived.reblock_conformant _ (Derived.crop_conformant f hc b hb s p hp)
  rw [Derived.geoOf_crop]
  simpa [Reblock.supported, Crop.outGeo] using hs

-- non-vacuity: a conformant 2-bit header in the re-blockable layout, an aligned box
def fConf : Header.Fields :=
  { nHeaderBlocks := 2, nSamples := 1024, nXl := 10, nIl := 9, zStart := 0, xl0 := 1, il0 := 1, interval := 4000, dXl := 1,
    dIl := 1, q := 8, b0 := 4, b1 := 4, b2 := 1024, dataBlocks := 9, arrayBytes := 360, nArrays := 2, tracecount := 90,
    version := 2057 }
example : Derived.Conformant fConf := ⟨by decide, by decide, by decide, by decide⟩
example : Crop.Aligned (Derived.geoOf fConf) ⟨4, 9, 0, 8, 0, 1024⟩ :=
  ⟨by decide, by decide, by decide, by decide, by decide, by decide⟩
example : Reblock.supported (Derived.geoOf fConf) = true := by decide

end Sgz.Props.C03
