import Sgz.Proofs.Crop
import Sgz.Proofs.Derived
/-!
# C10 — cropping

`Model/Crop.lean` mirrors `SgzCropper`: refusal conditions, outward alignment of the ranges, the header's new extents and
the list of source units copied into the output data section (`read_chunk_range` in the default layout, whole disk blocks in
the others).  For every valid source geometry, every layout and every aligned box inside the cube:

* `bounds_widened_outward` — the written box is the request widened outward to block boundaries and clipped to the cube
  (and nothing more: less than one block is added on either side);
* `copied_units` — the unit the cropped file holds at the specification's address of its voxel (a,x,z) **is** the source's
  unit at the address of voxel (i0+a, x0+x, z0+z); `same_position` — and the voxel sits at the same position inside the unit.
  A reader of the cropped file (C02 applies to it: `outGeo_valid`) therefore decodes, bit for bit, the source's decoded
  volume restricted to the box — no re-compression is involved;
* `refusal` — no range, or a range outside the cube, empty or inverted, is refused;
* `trace_map` — entry `t` of a cropped footer array is entry `(i0 + t / w)·n1 + x0 + t % w` of the source array.
-/
namespace Sgz.Props.C10
open Sgz Geo Crop

theorem bounds_widened_outward (lo hi b n : Nat) (hb : 0 < b) (h1 : lo < hi) (h2 : hi ≤ n) :
    b ∣ (correct lo hi b n).1 ∧ (correct lo hi b n).1 ≤ lo ∧ lo < (correct lo hi b n).1 + b
    ∧ hi ≤ (correct lo hi b n).2 ∧ (correct lo hi b n).2 ≤ n
    ∧ (b ∣ (correct lo hi b n).2 ∨ (correct lo hi b n).2 = n) ∧ (correct lo hi b n).2 < hi + b :=
  correct_spec lo hi b n hb h1 h2

theorem copied_units (g : Geo) (hg : g.Valid) (b : Box) (hb : Aligned g b)
    (a x z : Nat) (ha : a < (outGeo g b).P0) (hx : x < (outGeo g b).P1) (hz : z < (outGeo g b).P2) :
    (units g b)[Spec.unit (outGeo g b) a x z]? = some (Spec.unit g (b.i0 + a) (b.x0 + x) (b.z0 + z)) := by
  by_cases hd : (g.b0 == 4 && g.b1 == 4) = true
  · simp only [Bool.and_eq_true, beq_iff_eq] at hd
    exact units_default g hg hd.1 hd.2 b hb a x z ha hx hz
  · exact units_general g hg (by simpa using hd) b hb a x z ha hx hz

theorem same_position (g : Geo) (hg : g.Valid) (b : Box) (hb : Aligned g b) (a x z : Nat) :
    Spec.pos (b.i0 + a) (b.x0 + x) (b.z0 + z) = Spec.pos a x z := by
  obtain ⟨k0, h0⟩ := Nat.dvd_trans (dvd0 hg) hb.a0
  obtain ⟨k1, h1⟩ := Nat.dvd_trans (dvd1 hg) hb.a1
  obtain ⟨k2, h2⟩ := Nat.dvd_trans (dvd2 hg) hb.a2
  unfold Spec.pos
  rw [h0, h1, h2]
  have e0 : (4 * k0 + a) % 4 = a % 4 := by omega
  have e1 : (4 * k1 + x) % 4 = x % 4 := by omega
  have e2 : (4 * k2 + z) % 4 = z % 4 := by omega
  rw [e0, e1, e2]

/-- the cropped file is a valid geometry in the same layout: every read theorem (C02, C07, C14) applies to it -/
theorem output_geometry_valid (g : Geo) (hg : g.Valid) (b : Box) (hb : Aligned g b) : (outGeo g b).Valid :=
  outGeo_valid g hg b hb

theorem bad_iff (r : Range) (n : Nat) :
    (match r with | none => false | some (lo, hi) => decide (lo < 0) || decide (hi > (n : Int)) || decide (lo ≥ hi)) = true
      ↔ ∃ lo hi, r = some (lo, hi) ∧ (lo < 0 ∨ hi > n ∨ lo ≥ hi) := by
  cases r with
  | none => simp
  | some p =>
    obtain ⟨lo, hi⟩ := p
    simp only [Bool.or_eq_true, decide_eq_true_eq, Option.some.injEq, Prod.mk.injEq]
    constructor
    · intro h; exact ⟨lo, hi, ⟨rfl, rfl⟩, by omega⟩
    · rintro ⟨lo', hi', ⟨rfl, rfl⟩, h⟩; omega

theorem refusal (g : Geo) (ri rx rz : Range) :
    refuses g ri rx rz = true ↔
      (ri = none ∧ rx = none ∧ rz = none)
      ∨ (∃ lo hi, ri = some (lo, hi) ∧ (lo < 0 ∨ hi > g.n0 ∨ lo ≥ hi))
      ∨ (∃ lo hi, rx = some (lo, hi) ∧ (lo < 0 ∨ hi > g.n1 ∨ lo ≥ hi))
      ∨ (∃ lo hi, rz = some (lo, hi) ∧ (lo < 0 ∨ hi > g.n2 ∨ lo ≥ hi)) := by
  unfold refuses
  simp only [Bool.or_eq_true, Bool.and_eq_true, Option.isNone_iff_eq_none]
  constructor
  · rintro (((h | h) | h) | h)
    · exact .inl ⟨h.1.1, h.1.2, h.2⟩
    · exact .inr (.inl ((bad_iff ri g.n0).mp h))
    · exact .inr (.inr (.inl ((bad_iff rx g.n1).mp h)))
    · exact .inr (.inr (.inr ((bad_iff rz g.n2).mp h)))
  · rintro (h | h | h | h)
    · exact .inl (.inl (.inl ⟨⟨h.1, h.2.1⟩, h.2.2⟩))
    · exact .inl (.inl (.inr ((bad_iff ri g.n0).mpr h)))
    · exact .inl (.inr ((bad_iff rx g.n1).mpr h))
    · exact .inr ((bad_iff rz g.n2).mpr h)

/-- the box written for an accepted request is aligned (so `copied_units` applies to it) -/
theorem accepted_box_aligned (g : Geo) (hg : g.Valid) (i0 i1 x0 x1 z0 z1 : Nat)
    (hi : i0 < i1 ∧ i1 ≤ g.n0) (hx : x0 < x1 ∧ x1 ≤ g.n1) (hz : z0 < z1 ∧ z1 ≤ g.n2) :
    Aligned g (box g (some (i0, i1)) (some (x0, x1)) (some (z0, z1))) := by
  have s0 := correct_spec i0 i1 g.b0 g.n0 (b0_pos hg) hi.1 hi.2
  have s1 := correct_spec x0 x1 g.b1 g.n1 (b1_pos hg) hx.1 hx.2
  have s2 := correct_spec z0 z1 g.b2 g.n2 (b2_pos hg) hz.1 hz.2
  simp only [box, rangeOr, Int.toNat_natCast]
  exact { a0 := s0.1, a1 := s1.1, a2 := s2.1
          r0 := ⟨by show (correct i0 i1 g.b0 g.n0).1 < (correct i0 i1 g.b0 g.n0).2; omega, s0.2.2.2.2.1⟩
          r1 := ⟨by show (correct x0 x1 g.b1 g.n1).1 < (correct x0 x1 g.b1 g.n1).2; omega, s1.2.2.2.2.1⟩
          r2 := ⟨by show (correct z0 z1 g.b2 g.n2).1 < (correct z0 z1 g.b2 g.n2).2; omega, s2.2.2.2.2.1⟩ }

theorem trace_map (g : Geo) (b : Box) (t : Nat) (hw : 0 < b.x1 - b.x0) :
    traceMap g b t = (b.i0 + t / (b.x1 - b.x0)) * g.n1 + (b.x0 + t % (b.x1 - b.x0))
    ∧ t % (b.x1 - b.x0) < b.x1 - b.x0 := ⟨rfl, Nat.mod_lt _ hw⟩

-- non-vacuity
def gS : Geo := { n0 := 9, n1 := 10, n2 := 300, b0 := 4, b1 := 4, b2 := 256, u := 64 }
def bS : Box := box gS (some (5, 7)) none (some (100, 257))
example : gS.Valid ∧ bS = ⟨4, 8, 0, 10, 0, 300⟩ := by decide
example : refuses gS none none none = true ∧ refuses gS (some (3, 3)) none none = true
    ∧ refuses gS (some (0, 10)) none none = true ∧ refuses gS (some (5, 7)) none none = false := by decide

/-- the line axes a reader builds from the cropped header (`Derived.cropHeader`: origin moved by `x0` increments) are the
source's axes restricted to the box: every line keeps its number -/
theorem cropped_axis_is_source_axis_restricted (a d : Int) (n x0 len : Nat) (h : x0 + len ≤ n) :
    Axes.axis (a + d * (x0 : Int)) d len = ((Axes.axis a d n).drop x0).take len :=
  Derived.crop_axis a d n x0 len h

/-- the cropped file's header is conformant (geometry, data length, array length, trace count) -/
theorem cropped_header_conformant (f : Header.Fields) (hc : Derived.Conformant f) (b : Crop.Box)
    (hb : Crop.Aligned (Derived.geoOf f) b) (s : Bool) (p : Nat) (hp : p ≤ (b.i1 - b.i0) * (b.x1 - b.x0)) :
    Derived.Conformant (Derived.cropHeader f b s p) := Derived.crop_conformant f hc b hb s p hp

end Sgz.Props.C10
