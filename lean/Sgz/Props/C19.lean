import Sgz.Proofs.Config
import Sgz.Model.Geo
/-!
# C19 — configuration soundness

`Config.resolve` mirrors `utils.define_blockshape_3d/2d` (resolution of the one free parameter, then
`validate_compression_settings`).  Two theorems:

* **soundness** — whatever the arguments (any rational bit rate, any integers, `-1` = free), the resolver either refuses or
  returns a setting that satisfies `Cfg.Valid` (rate in {1/4 … 32}, power-of-two block dimensions ≥ 4 — first = 1 in 2D —
  and rate × dimensions = 32768 bits).  `Cfg.Valid` is what the geometry theorems of C01–C03 assume (`valid_geo`).
* **completeness** — every valid setting, presented with the rate as *any* rational denoting it and with at most one of
  the four parameters left free, resolves to itself.
-/
namespace Sgz.Props.C19
open Sgz Config

theorem validate_sound (r : Q) (b0 b1 b2 : Int) (is2d : Bool) (c : Cfg)
    (h : validate r b0 b1 b2 is2d = .ok c) : c.Valid is2d = true := by
  unfold validate at h
  dsimp only at h
  repeat' (first | injection h | split at h)
  rename_i hv heq
  subst heq
  exact hv

/-- soundness: accepted ⇒ valid -/
theorem resolve_sound (bpv : Q) (b0 b1 b2 : Int) (is2d : Bool) (c : Cfg)
    (h : resolve bpv b0 b1 b2 is2d = .ok c) : c.Valid is2d = true := by
  unfold resolve at h
  dsimp only at h
  repeat' (first | exact validate_sound _ _ _ _ _ _ h | injection h | split at h)

/-- "rejected or valid", as one statement -/
theorem resolve_rejects_or_valid (bpv : Q) (b0 b1 b2 : Int) (is2d : Bool) :
    (∃ e, resolve bpv b0 b1 b2 is2d = .error e) ∨ (∃ c, resolve bpv b0 b1 b2 is2d = .ok c ∧ c.Valid is2d = true) := by
  cases h : resolve bpv b0 b1 b2 is2d with
  | error e => exact .inl ⟨e, rfl⟩
  | ok c => exact .inr ⟨c, rfl, resolve_sound _ _ _ _ _ _ h⟩

theorem pow2_even (n : Nat) (h : n &&& (n - 1) = 0) (hn : 2 ≤ n) : n % 2 = 0 ∧ (n / 2) &&& (n / 2 - 1) = 0 := by
  have hd : (n &&& (n - 1)) / 2 = (n / 2) &&& ((n - 1) / 2) := by
    have := Nat.and_div_two_pow (a := n) (b := n - 1) (n := 1)
    simpa using this
  rw [h] at hd
  by_cases hodd : n % 2 = 1
  · exfalso
    have h2 : (n - 1) / 2 = n / 2 := by omega
    rw [h2, Nat.and_self] at hd
    omega
  · have h2 : (n - 1) / 2 = n / 2 - 1 := by omega
    rw [h2] at hd
    exact ⟨by omega, by simpa using hd.symm⟩

theorem pow2_dvd4 (n : Nat) (hp : isPow2 n = true) (hn : 4 ≤ n) : 4 ∣ n := by
  unfold isPow2 at hp
  simp only [Bool.and_eq_true, decide_eq_true_eq, beq_iff_eq, ge_iff_le] at hp
  obtain ⟨h1, h2⟩ := pow2_even n hp.2 (by omega)
  obtain ⟨h3, _⟩ := pow2_even (n / 2) h2 (by omega)
  omega

/-- a valid setting yields a geometry to which the placement theorems (C01/C02/C09) apply: block dimensions divisible by
4 and one disk block = a whole number of units: `cells per block × unit bytes = 4096`, unit bytes `u = 2·q`
(64 voxels × q/4 bits / 8) -/
theorem valid_geo_3d (c : Cfg) (h : c.Valid false = true) :
    4 ∣ c.b0 ∧ 4 ∣ c.b1 ∧ 4 ∣ c.b2 ∧ (c.b0 / 4) * (c.b1 / 4) * (c.b2 / 4) * (2 * c.q) = 4096 := by
  unfold Cfg.Valid at h
  simp only [Bool.and_eq_true, decide_eq_true_eq, Bool.false_eq_true, if_false, beq_iff_eq, ge_iff_le] at h
  obtain ⟨⟨⟨⟨⟨⟨_, p1⟩, g1⟩, p2⟩, g2⟩, p0, g0⟩, hprod⟩ := h
  have d0 := pow2_dvd4 _ p0 g0
  have d1 := pow2_dvd4 _ p1 g1
  have d2 := pow2_dvd4 _ p2 g2
  refine ⟨d0, d1, d2, ?_⟩
  obtain ⟨a, ha⟩ := d0
  obtain ⟨b, hb⟩ := d1
  obtain ⟨d, hd⟩ := d2
  rw [ha, hb, hd] at hprod ⊢
  simp only [Nat.mul_div_cancel_left _ (by decide : 0 < 4)]
  have e1 : c.q * (4 * a) * (4 * b) * (4 * d) = 64 * (a * b * d * c.q) := by
    simp only [Nat.mul_comm, Nat.mul_left_comm, Nat.mul_assoc]
  rw [e1] at hprod
  have e2 : a * b * d * (2 * c.q) = 2 * (a * b * d * c.q) := by
    simp only [Nat.mul_comm, Nat.mul_left_comm, Nat.mul_assoc]
  omega

/-- 2D: `u = q/2` bytes per 4×4 unit (needs q ≥ 4, i.e. at least 1 bit per voxel) -/
theorem valid_geo_2d (c : Cfg) (h : c.Valid true = true) :
    c.b0 = 1 ∧ 4 ∣ c.b1 ∧ 4 ∣ c.b2 ∧ 2 ∣ c.q ∧ (c.b1 / 4) * (c.b2 / 4) * (c.q / 2) = 4096 := by
  unfold Cfg.Valid at h
  simp only [Bool.and_eq_true, decide_eq_true_eq, if_true, beq_iff_eq, ge_iff_le] at h
  obtain ⟨⟨⟨⟨⟨⟨hq, p1⟩, g1⟩, p2⟩, g2⟩, e0, gq⟩, hprod⟩ := h
  have d1 := pow2_dvd4 _ p1 g1
  have d2 := pow2_dvd4 _ p2 g2
  have hq2 : 2 ∣ c.q := by
    unfold validRateQ at hq
    simp only [Bool.or_eq_true, beq_iff_eq] at hq
    omega
  refine ⟨e0, d1, d2, hq2, ?_⟩
  obtain ⟨b, hb⟩ := d1
  obtain ⟨d, hd⟩ := d2
  obtain ⟨k, hk⟩ := hq2
  rw [e0, hb, hd, hk] at hprod
  rw [hb, hd, hk]
  simp only [Nat.mul_div_cancel_left _ (by decide : 0 < 4), Nat.mul_div_cancel_left _ (by decide : 0 < 2)]
  have e1 : 2 * k * 1 * (4 * b) * (4 * d) = 32 * (b * d * k) := by
    simp only [Nat.mul_comm, Nat.mul_left_comm, Nat.mul_assoc, Nat.one_mul]
  omega


/-- the geometry a conversion with setting `c` writes for a cube of `n0 × n1 × n2` samples -/
def geoOf (c : Cfg) (n0 n1 n2 : Nat) : Geo := { n0 := n0, n1 := n1, n2 := n2, b0 := c.b0, b1 := c.b1, b2 := c.b2, u := 2 * c.q }

/-- **accepted ⇒ the placement theorems apply**: every setting the resolver accepts yields, for every non-empty cube, a
geometry satisfying `Geo.Valid` — the hypothesis of C01 (write-then-read), C02 (access coherence), C03 (sizes), C07, C14 -/
theorem accepted_setting_gives_valid_geometry (bpv : Q) (b0 b1 b2 : Int) (c : Cfg)
    (h : resolve bpv b0 b1 b2 false = .ok c) (n0 n1 n2 : Nat) (h0 : 0 < n0) (h1 : 0 < n1) (h2 : 0 < n2) :
    (geoOf c n0 n1 n2).Valid := by
  have hv := resolve_sound bpv b0 b1 b2 false c h
  obtain ⟨d0, d1, d2, hcpb⟩ := valid_geo_3d c hv
  obtain ⟨hq, g1, g2, _, h3d, _⟩ := Config.valid_facts c false hv
  have g0 : 4 ≤ c.b0 := h3d rfl
  refine ⟨d0, d1, d2, ?_, ?_, ?_, ?_, ?_, h0, h1, h2⟩
  · show 0 < c.b0; omega
  · show 0 < c.b1; omega
  · show 0 < c.b2; omega
  · show 0 < 2 * c.q; omega
  · exact hcpb

/-- completeness: a valid setting whose rate is written as any rational `num/den = q/4` resolves to itself when all four
parameters are given and when any one block dimension is left free (the first only in 3D); with the rate left free
(`-1`); and, for rates below 1, when the rate is written as its negative reciprocal (`-4`, `-2`). -/
theorem resolve_complete (c : Cfg) (is2d : Bool) (hv : c.Valid is2d = true) (bpv : Q) (hr : Denotes bpv c.q) :
    resolve bpv c.b0 c.b1 c.b2 is2d = .ok c
    ∧ (is2d = false → resolve bpv (-1) c.b1 c.b2 is2d = .ok c)
    ∧ resolve bpv c.b0 (-1) c.b2 is2d = .ok c
    ∧ resolve bpv c.b0 c.b1 (-1) is2d = .ok c
    ∧ resolve { num := -1, den := 1 } c.b0 c.b1 c.b2 is2d = .ok c :=
  ⟨resolve_given c is2d hv bpv hr, fun h => by subst h; exact resolve_free0 c hv bpv hr,
   resolve_free1 c is2d hv bpv hr, resolve_free2 c is2d hv bpv hr, resolve_freeRate c is2d hv 1 (by decide)⟩

theorem resolve_complete_reciprocal (c : Cfg) (is2d : Bool) (hv : c.Valid is2d = true) (bpv : Q) (hden : 0 < bpv.den)
    (hneg : bpv.num < -(bpv.den : Int)) (hr : 4 * (bpv.den : Int) = (c.q : Int) * (-bpv.num)) :
    resolve bpv c.b0 c.b1 c.b2 is2d = .ok c ∧ resolve bpv c.b0 c.b1 (-1) is2d = .ok c :=
  resolve_recip c is2d hv bpv hden hneg hr

-- non-vacuity: valid settings exist in every family; an invalid one is refused
example : (⟨8, 4, 4, 1024⟩ : Cfg).Valid false = true ∧ (⟨1, 256, 128, 4⟩ : Cfg).Valid false = true
    ∧ (⟨16, 1, 64, 128⟩ : Cfg).Valid true = true ∧ Denotes ⟨1, 2⟩ 2 ∧ Denotes ⟨2, 1⟩ 8 := by
  refine ⟨by decide, by decide, by decide, ⟨by decide, by decide⟩, ⟨by decide, by decide⟩⟩
example : resolve ⟨3, 1⟩ 4 4 (-1) false = .error .value := by decide
example : resolve ⟨-4, 1⟩ 256 128 (-1) false = .ok ⟨1, 256, 128, 4⟩ := by decide
/-- 2D at 1/4 or 1/2 bit per voxel is refused (known finding KF-C19-2d-subbit: the codec cannot write it) -/
example : resolve ⟨1, 2⟩ 1 256 (-1) true = .error .value := by decide

end Sgz.Props.C19
