import Sgz.Proofs.IO
/-!
# C17 — I/O failures are reported, never turned into samples

Model: `Model/IO.lean`.  A read call is a program over the length-checked range-read primitive; `Out.toProg` is the
program of a `Model/Reader` call (its loader's range reads, then the array).  For every program, file and fault plan:

* `fault_soundness` — the call raises, or returns exactly the fault-free value (never a different array or header);
* `no_fault_true_value` — with no fault it returns the true value;
* `fault_is_reported` — if a range read it issues raises, or comes back shorter than any length the call asks for, the
  call raises;
* `xlSet_order_independent`, `zsliceSet_order_independent` (Proofs/IO) — the buffer filled by the thread-pool fan-out is
  the same for every completion order, because the copies go to pairwise disjoint buffer ranges.

Tied to the code by: (a) every range read of the real reader observed at a fault-injecting file / blob object, sequence
compared with the model's fetch list; (b) every (position, fault kind) executed on the real reader.
-/
namespace Sgz.Props.C17
open Sgz

theorem fault_soundness {α : Type} (f : File) (plan : Nat → Prog.Fault) (prog : Prog α) :
    prog.runFaulty f plan = .error .io ∨ prog.runFaulty f plan = prog.run f := runFaulty_sound f plan prog 0

theorem no_fault_true_value {α : Type} (f : File) (plan : Nat → Prog.Fault) (h : ∀ k, plan k = .none) (prog : Prog α) :
    prog.runFaulty f plan = prog.run f := runFaulty_clean f plan h prog 0

theorem fault_is_reported {α : Type} (f : File) (plan : Nat → Prog.Fault) (prog : Prog α) (k : Nat)
    (hk : k < prog.reads f) (hfault : plan k = .exc ∨ ∃ got, plan k = .short got ∧ AllLens (got < ·) prog) :
    prog.runFaulty f plan = .error .io := runFaulty_raises f plan prog 0 k (Nat.zero_le _) (by omega) hfault

/-- instantiated to the read calls of `Model/Reader`: a fault at any of the call's range reads (exception, or an empty
read) makes the call raise; `k` ranges over the positions of the model's fetch list -/
theorem read_call_fault_is_reported (f : File) (ds : Nat) (o : Out) (plan : Nat → Prog.Fault) (k : Nat)
    (hfit : truncRaises ds f.len o = false) (hk : faultRaises k o = true) (hpos : ∀ fl ∈ o.fetches, 0 < fl.2)
    (hfault : plan k = .exc ∨ plan k = .short 0) :
    (o.toProg ds).runFaulty f plan = .error .io := by
  apply fault_is_reported f plan _ k
  · rw [toProg_reads f ds o hfit]; simpa [faultRaises] using hk
  · rcases hfault with h | h
    · exact .inl h
    · exact .inr ⟨0, h, toProg_allLens ds o _ hpos⟩

theorem read_call_fault_soundness (f : File) (ds : Nat) (r : R) (plan : Nat → Prog.Fault) :
    (r.toProg ds).runFaulty f plan = .error .io ∨ (r.toProg ds).runFaulty f plan = (r.toProg ds).run f :=
  fault_soundness f plan _

/-- non-vacuity: a two-read program on a real file; a fault at read 1 raises, a clean plan returns the value -/
def demoProg : Prog Nat := .read 0 4 fun a => .read 4 4 fun b => .done (a.length + b.length)
def demoFile : File := { len := 8, byte := fun i => i }
example : demoProg.run demoFile = .ok 8 := by rfl
example : demoProg.runFaulty demoFile (fun k => if k = 1 then .exc else .none) = .error .io := by rfl
example : demoProg.runFaulty demoFile (fun k => if k = 1 then .short 3 else .none) = .error .io := by rfl
example : demoProg.reads demoFile = 2 := by decide

end Sgz.Props.C17
