import Sgz.Model.Export
import Sgz.Props.C04
/-!
# C06 — SEG-Y export round trip (the part that is this package's logic)

* `file_header_identical` — when the source's format code is IBM (1) or IEEE (5) the exported 3600-byte file header is the
  stored one, byte for byte; `format_kept` — and segyio is given that same format;
* `format_field_position` — the code is taken from bytes 3225–3226 (big-endian) and from nothing else: the neighbouring
  binary-header fields (e.g. an ensemble fold ≥ 256 at 3227–3228) cannot influence it;
* `unknown_format_falls_back` — any other code exports as IBM with the field rewritten to 1 (two bytes, nothing else);
* `headers_equal_source` — composed with C04: if regeneration returns the source's fields and the source's
  `DelayRecordingTime` is the first sample time, every field of every exported header equals the source's;
* `trace_order` — export order is SGZ trace order.
Sample values (IEEE exact / IBM within 2⁻²⁰) are segyio's conversion (assumption A2) and are checked by the oracle.
-/
namespace Sgz.Props.C06
open Sgz Export

theorem file_header_identical (fh : Nat → Nat) (h : formatOf fh = 1 ∨ formatOf fh = 5) : exportFileHeader fh = fh := by
  unfold exportFileHeader supportedFormat
  rcases h with h | h <;> simp [h]

theorem format_kept (fh : Nat → Nat) (h : formatOf fh = 1 ∨ formatOf fh = 5) : exportFormat fh = formatOf fh := by
  unfold exportFormat supportedFormat
  rcases h with h | h <;> simp [h]

/-- only bytes 3224 and 3225 (0-based) matter -/
theorem format_field_position (fh fh' : Nat → Nat) (h0 : fh 3224 = fh' 3224) (h1 : fh 3225 = fh' 3225) :
    exportFormat fh = exportFormat fh' := by
  unfold exportFormat formatOf formatAt; rw [h0, h1]

theorem unknown_format_falls_back (fh : Nat → Nat) (h : formatOf fh ≠ 1 ∧ formatOf fh ≠ 5) :
    exportFormat fh = 1 ∧ formatOf (exportFileHeader fh) = 1
    ∧ ∀ i, i ≠ 3224 → i ≠ 3225 → exportFileHeader fh i = fh i := by
  have hs : supportedFormat (formatOf fh) = false := by
    unfold supportedFormat; simp [h.1, h.2]
  refine ⟨by simp [exportFormat, hs], by unfold exportFileHeader; rw [hs]; simp [formatOf, formatAt], ?_⟩
  intro i h1 h2
  simp [exportFileHeader, hs, h1, h2]

theorem headers_equal_source (regen h : Nat → Nat → Int) (drt : Nat) (t0 : Int) (i : Nat)
    (hregen : ∀ f, regen i f = h i f) (hdrt : h i drt = t0) : ∀ f, exportHeader regen drt t0 i f = h i f := by
  intro f
  unfold exportHeader
  by_cases hf : f = drt
  · subst hf; simp [hdrt]
  · simp [hf, hregen]

/-- with C04: exhaustive detection, any header content -/
theorem headers_equal_source_exhaustive (s : Headers.Src) (drt : Nat) (t0 : Int) (i f : Nat) (hf : f < s.F)
    (hdrt : s.h i drt = t0) :
    exportHeader (Headers.regen s (Headers.classifyAll s)) drt t0 i f = s.h i f := by
  unfold exportHeader
  by_cases hfd : f = drt
  · subst hfd; simp [hdrt]
  · simp only [beq_iff_eq, hfd, if_false]; exact Sgz.Props.C04.exhaustive_exact s i f hf

theorem trace_order {α : Type} (getTrace : Nat → α) (i : Nat) : exportTrace getTrace i = getTrace i := rfl

-- non-vacuity: an IEEE header with a large ensemble fold next to the format field; an unknown code
def fhIeee : Nat → Nat := fun i => if i = 3225 then 5 else if i = 3226 then 1 else if i = 3227 then 44 else 0
example : exportFormat fhIeee = 5 ∧ exportFileHeader fhIeee = fhIeee := by
  refine ⟨by decide, file_header_identical fhIeee (.inr (by decide))⟩
example : exportFormat (fun i => if i = 3225 then 8 else 0) = 1 := by decide

/-- the export is self-consistent: a SEG-Y reader that takes the number of extended textual headers from the exported file's
own binary header (the source's, byte for byte, for formats 1 and 5; only the format word differs otherwise) finds every
trace where the exporter put it -/
theorem traces_where_the_header_says (fh : Nat → Nat) (ns t : Nat) :
    segyTraceOffset (exportFileHeader fh) ns t = exportTraceOffset fh ns t := by
  unfold segyTraceOffset exportTraceOffset extCount exportFileHeader
  by_cases h : supportedFormat (formatOf fh) = true
  · rw [if_pos h]
  · rw [if_neg h]; rfl

/-- traces of the export are laid out back to back, each `240 + 4·ns` bytes, starting right after the file headers and the
extended textual headers the binary header announces -/
theorem export_traces_consecutive (fh : Nat → Nat) (ns t : Nat) :
    exportTraceOffset fh ns 0 = 3600 + 3200 * extCount fh
    ∧ exportTraceOffset fh ns (t + 1) = exportTraceOffset fh ns t + (240 + 4 * ns) := by
  unfold exportTraceOffset
  constructor
  · simp
  · have e : (t + 1) * (240 + 4 * ns) = t * (240 + 4 * ns) + (240 + 4 * ns) := Nat.succ_mul _ _
    omega

/-- no two traces of the export overlap, and none overlaps the file headers -/
theorem export_traces_disjoint (fh : Nat → Nat) (ns t t' : Nat) (h : t < t') :
    3600 ≤ exportTraceOffset fh ns t ∧ exportTraceOffset fh ns t + (240 + 4 * ns) ≤ exportTraceOffset fh ns t' := by
  unfold exportTraceOffset
  have h1 : (t + 1) * (240 + 4 * ns) ≤ t' * (240 + 4 * ns) := Nat.mul_le_mul_right _ h
  have e : (t + 1) * (240 + 4 * ns) = t * (240 + 4 * ns) + (240 + 4 * ns) := Nat.succ_mul _ _
  constructor <;> omega

end Sgz.Props.C06
