import Sgz.Model.Window
import Sgz.Proofs.Writer
import Sgz.Props.C05
/-!
# C11 — converting with a window equals converting the windowed cube

* `window_fill_is_subcube_fill` — every voxel of every plane set of the windowed conversion carries the source sample
  `(a0 + i', b0 + x', z')` where `(i',x',z')` is what the un-windowed producer (`Writer.fill`) assigns on the sub-cube: so the
  compressed data, unit by unit, is that of converting the sub-cube alone (C01 then applies to it: clamp *inside the window*);
  windows starting at ordinal 0 included;
* `header_slots_raster` — trace `j` of window plane `il` is stored at slot `il·n1w + j`: the slots of the window's traces are
  `0 … |w|−1` in the window's own raster order, exactly the slots a conversion of the sub-cube uses;
* `detection_traces` — the traces inspected by header detection are the window's first and last trace.
-/
namespace Sgz.Props.C11
open Sgz Window

theorem window_fill_is_subcube_fill (g : Geo) (w : Win) (s i x z : Nat) (hp : 0 < Writer.toRead g.n0 g.b0 s) :
    fill g w s i x z = (w.a0 + (Writer.fill g s i x z).1, w.b0 + (Writer.fill g s i x z).2.1, (Writer.fill g s i x z).2.2) := by
  unfold fill Writer.fill
  simp only
  congr 1
  · split <;> omega
  · congr 1
    split <;> omega

theorem header_slots_raster (N1 : Nat) (w : Win) (il j : Nat) (hw : w.b0 < w.b1) (hN : w.b1 ≤ N1) (hj : j < w.b1 - w.b0) :
    tStore N1 w (startTrace N1 w il + j) = il * (w.b1 - w.b0) + j := by
  unfold tStore startTrace
  have hlt : w.b0 + j < N1 := by omega
  have e : (w.a0 + il) * N1 + w.b0 + j = (w.a0 + il) * N1 + (w.b0 + j) := by omega
  rw [e, div_mixed _ _ _ hlt, mod_mixed _ _ _ hlt]
  have : w.a0 + il - w.a0 = il := by omega
  rw [this]; omega

/-- the slots are a bijection from the window's traces onto `[0, |w|)`: distinct traces, distinct slots, all in range -/
theorem header_slots_bijective (N1 : Nat) (w : Win) (hw : w.b0 < w.b1) (hN : w.b1 ≤ N1)
    (il j il' j' : Nat) (hil : il < w.a1 - w.a0) (hj : j < w.b1 - w.b0) (hj' : j' < w.b1 - w.b0)
    (h : tStore N1 w (startTrace N1 w il + j) = tStore N1 w (startTrace N1 w il' + j')) :
    il = il' ∧ j = j' ∧ tStore N1 w (startTrace N1 w il + j) < (w.a1 - w.a0) * (w.b1 - w.b0) := by
  rw [header_slots_raster N1 w il j hw hN hj, header_slots_raster N1 w il' j' hw hN hj'] at h
  rw [header_slots_raster N1 w il j hw hN hj]
  have h1 : (il * (w.b1 - w.b0) + j) / (w.b1 - w.b0) = il := div_mixed _ _ _ hj
  have h2 : (il' * (w.b1 - w.b0) + j') / (w.b1 - w.b0) = il' := div_mixed _ _ _ hj'
  have h3 : (il * (w.b1 - w.b0) + j) % (w.b1 - w.b0) = j := mod_mixed _ _ _ hj
  have h4 : (il' * (w.b1 - w.b0) + j') % (w.b1 - w.b0) = j' := mod_mixed _ _ _ hj'
  rw [h] at h1 h3
  exact ⟨by omega, by omega, by rw [h]; rw [← h]; exact lt_of_mixed _ _ _ _ hil hj⟩

theorem detection_traces (N1 : Nat) (w : Win) (ha : w.a0 < w.a1) (hw : w.b0 < w.b1) :
    firstTrace N1 w = startTrace N1 w 0 + 0
    ∧ lastTrace N1 w = startTrace N1 w (w.a1 - w.a0 - 1) + (w.b1 - w.b0 - 1) := by
  unfold firstTrace lastTrace startTrace
  constructor
  · simp
  · have e1 : w.a0 + (w.a1 - w.a0 - 1) = w.a1 - 1 := by omega
    rw [e1]; omega

/-- **axes of the windowed file**: the line axis a reader regenerates from the header words of a windowed conversion is
the slice `[c0, c1)` of the source axis — so the label of window line `k` is the source's label of line `c0 + k`, the line
whose samples `window_fill_is_subcube_fill` puts there -/
theorem window_axis_entry (start step : Int) (c0 c1 k : Nat) (hk : k < c1 - c0) :
    (windowAxis start step c0 c1)[k]? = some (start + step * ((c0 + k : Nat) : Int)) := by
  unfold windowAxis axisWords Axes.axis
  simp only [List.getElem?_map, List.getElem?_range hk, Option.map_some]
  congr 1
  rw [Int.natCast_add, Int.mul_add]; omega

theorem window_axis_length (start step : Int) (c0 c1 : Nat) : (windowAxis start step c0 c1).length = c1 - c0 := by
  simp [windowAxis, axisWords, Axes.axis]

theorem window_axis_is_source_slice (start step : Int) (N c0 c1 : Nat) (h : c1 ≤ N) :
    windowAxis start step c0 c1 = ((Axes.axis start step N).drop c0).take (c1 - c0) := by
  apply List.ext_getElem?
  intro k
  by_cases hk : k < c1 - c0
  · rw [window_axis_entry start step c0 c1 k hk, List.getElem?_take_of_lt hk, List.getElem?_drop]
    unfold Axes.axis
    rw [List.getElem?_map, List.getElem?_range (by omega)]
    rfl
  · rw [List.getElem?_eq_none (by rw [window_axis_length]; omega), List.getElem?_eq_none]
    rw [List.length_take]; omega

/-- the stored 32-bit words of a windowed axis decode (read unsigned, wrapped by `astype('intc')`) to that slice, for
every source axis whose windowed labels fit int32 — negative and descending axes included (C05's `axis_roundtrip`) -/
theorem window_axis_words_roundtrip (start step : Int) (c0 c1 : Nat)
    (hs : -2147483648 ≤ start + step * (c0 : Int) ∧ start + step * (c0 : Int) < 2147483648)
    (hd : -2147483648 ≤ step ∧ step < 2147483648)
    (hall : ∀ k : Nat, k < c1 - c0 → -2147483648 ≤ start + step * (c0 : Int) + step * (k : Int)
      ∧ start + step * (c0 : Int) + step * (k : Int) < 2147483648) :
    ∃ su du, Axes.packI32 (axisWords start step c0 c1).2.1 = some su ∧ Axes.packI32 (axisWords start step c0 c1).2.2 = some du
      ∧ Axes.decodeAxis su du (axisWords start step c0 c1).1 = windowAxis start step c0 c1 :=
  Sgz.Props.C05.axis_roundtrip _ _ _ hs hd hall

-- non-vacuity: a window starting at ordinal 0 and one in the interior
example : tStore 10 ⟨0, 3, 0, 4⟩ (startTrace 10 ⟨0, 3, 0, 4⟩ 2 + 3) = 11 := by decide
example : tStore 10 ⟨2, 5, 3, 7⟩ (startTrace 10 ⟨2, 5, 3, 7⟩ 1 + 2) = 6 := by decide
example : windowAxis 100 (-2) 3 7 = [94, 92, 90, 88] := by decide
example : windowAxis (-5) 5 0 3 = ((Axes.axis (-5) 5 9).drop 0).take 3 := by decide
example : fill ⟨3, 4, 9, 4, 4, 256, 64⟩ ⟨2, 5, 3, 7⟩ 0 3 5 20 = (4, 6, 8) := by decide

end Sgz.Props.C11
