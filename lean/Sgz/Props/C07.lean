import Sgz.Proofs.Fetch
import Sgz.Model.Container
import Sgz.Proofs.HeaderReads
import Sgz.Proofs.Lru
/-!
# C07 — I/O proportionality

The same loader and reader definitions as C02/C14 (`Model/Loader.lean`, `Model/Reader.lean`) also yield, for every call,
the list of range reads `(offset, length)` it issues on a cold reader (offsets relative to the data section).  For every
valid geometry and every in-range request:

* the set of 4 KiB blocks touched by those reads is **exactly** the set of blocks holding a sample of the requested box
  (`Touched fs B ↔ Needed g box B`) — so nothing outside the data section, nothing not needed, nothing needed missing;
* the reads are pairwise disjoint (no byte twice within the call).

`Needed g k (k+1) 0 n1 0 n2` in the default layout is the set of blocks of the 4-line group of inline `k`; for a z-slice
it is one block per 4×4 trace column (default) or per tile (N×N×4) — `block_of_unit` ties blocks to the address function.
-/
namespace Sgz.Props.C07
open Sgz Geo

/-- the block of a voxel is the block its unit lies in: `unit / (units per block)` -/
theorem block_of_unit (g : Geo) (hg : g.Valid) (i x z : Nat) : Spec.unit g i x z / g.cpb = Spec.block g i x z := by
  unfold Spec.unit Spec.block
  have h0 := mod_div4_lt i g.b0 (dvd0 hg) (b0_pos hg)
  have h1 := mod_div4_lt x g.b1 (dvd1 hg) (b1_pos hg)
  have h2 := mod_div4_lt z g.b2 (dvd2 hg) (b2_pos hg)
  apply div_mixed
  unfold Geo.cpb
  exact lt_of_mixed _ _ _ _ (lt_of_mixed _ _ _ _ h0 h1) h2

theorem subvolume (g : Geo) (hg : g.Valid) (i0 i1 x0 x1 z0 z1 : Nat)
    (hi : i0 < i1 ∧ i1 ≤ g.n0) (hx : x0 < x1 ∧ x1 ≤ g.n1) (hz : z0 < z1 ∧ z1 ≤ g.n2) :
    FetchExact g (Reader.readSubvolume g false i0 i1 x0 x1 z0 z1) i0 i1 x0 x1 z0 z1 :=
  readSubvolume_fetch g hg false i0 i1 x0 x1 z0 z1 (by simpa using hi) (by simpa using hx) (by simpa using hz)

theorem volume (g : Geo) (hg : g.Valid) : FetchExact g (Reader.readVolume g) 0 g.n0 0 g.n1 0 g.n2 := by
  have := readSubvolume_fetch g hg false 0 g.n0 0 g.n1 0 g.n2 (by simp; exact hg.2.2.2.2.2.2.2.2.1)
    (by simp; exact hg.2.2.2.2.2.2.2.2.2.1) (by simp; exact hg.2.2.2.2.2.2.2.2.2.2)
  simpa [Reader.readVolume] using this

theorem inline (g : Geo) (hg : g.Valid) (k : Nat) (hk : k < g.n0) :
    FetchExact g (Reader.readInline g k) k (k + 1) 0 g.n1 0 g.n2 := readInline_fetch g hg k hk

theorem crossline (g : Geo) (hg : g.Valid) (k : Nat) (hk : k < g.n1) :
    FetchExact g (Reader.readCrossline g k) 0 g.n0 k (k + 1) 0 g.n2 := readCrossline_fetch g hg k hk

theorem zslice (g : Geo) (hg : g.Valid) (k : Nat) (hk : k < g.n2) :
    FetchExact g (Reader.readZslice g k) 0 g.n0 0 g.n1 k (k + 1) := readZslice_fetch g hg k hk

/-- a trace or trace window touches the blocks of its own trace column that meet the window -/
theorem trace (g : Geo) (hg : g.Valid) (t a b : Nat) (ht : t < g.n0 * g.n1) (hab : a < b) (hb : b ≤ g.n2) :
    FetchExact g (Reader.getTrace g t a b) (t / g.n1) (t / g.n1 + 1) (t % g.n1) (t % g.n1 + 1) a b :=
  getTrace_fetch g hg t a b ht hab hb

theorem subplane (g : Geo) (hg : g.Valid2d) (t0 t1 z0 z1 : Nat) (ht : t0 < t1 ∧ t1 ≤ g.n1) (hz : z0 < z1 ∧ z1 ≤ g.n2) :
    FetchExact2 g (Reader.readSubplane g false t0 t1 z0 z1) t0 t1 z0 z1 :=
  readSubplane_fetch g hg false t0 t1 z0 z1 (by simpa using ht) (by simpa using hz)

theorem trace2d (g : Geo) (hg : g.Valid2d) (t a b : Nat) (ht : t < g.n1) (hab : a < b) (hb : b ≤ g.n2) :
    FetchExact2 g (Reader.getTrace g t a b) t (t + 1) a b := getTrace2d_fetch g hg t a b ht hab hb

/-- in the default layout the blocks needed by inline `k` are the blocks of its whole 4-line group: they do not depend
on `k % 4` -/
theorem inline_group (g : Geo) (hg : g.Valid) (h0 : g.b0 = 4) (k B : Nat) :
    Needed g k (k + 1) 0 g.n1 0 g.n2 B ↔ Needed g (4 * (k / 4)) (4 * (k / 4) + 4) 0 g.n1 0 g.n2 B := by
  rw [needed_iff g hg _ _ _ _ _ _ _ (by omega) hg.2.2.2.2.2.2.2.2.2.1 hg.2.2.2.2.2.2.2.2.2.2,
    needed_iff g hg _ _ _ _ _ _ _ (by omega) hg.2.2.2.2.2.2.2.2.2.1 hg.2.2.2.2.2.2.2.2.2.2, h0,
    cdiv_succ _ _ (by decide), cdiv_aligned _ _ (by decide), Nat.mul_div_cancel_left _ (by decide : 0 < 4)]

/-- regenerating a trace header of a regular file costs 4 bytes per stored array: exactly `nArrays` reads of 4 bytes, each
inside its own array, pairwise disjoint -/
theorem header_regeneration_cost (version nHB d len nArrays t : Nat) (ht : 4 * t + 4 ≤ len) :
    (Container.headerReads version nHB d len nArrays t).length = nArrays
    ∧ (∀ f ∈ Container.headerReads version nHB d len nArrays t, f.2 = 4)
    ∧ (∀ k, k < nArrays → (Container.headerReads version nHB d len nArrays t)[k]? =
        some (Container.readerFooterOffset version nHB d len k + 4 * t, 4))
    ∧ SortedFetches (Container.headerReads version nHB d len nArrays t) := by
  unfold Container.headerReads
  refine ⟨by simp, ?_, ?_, ?_⟩
  · intro f hf; simp only [List.mem_map] at hf; obtain ⟨k, _, rfl⟩ := hf; rfl
  · intro k hk; simp [hk]
  · apply pairwise_range_map
    intro a b hab _
    simp only [Container.readerFooterOffset]
    have hs : len ≤ (if Ver.paddedFooter version = true then pad len 512 else len) := by
      split
      · exact le_pad len 512 (by decide)
      · exact Nat.le_refl _
    generalize (if Ver.paddedFooter version = true then pad len 512 else len) = S at *
    have h1 : (a + 1) * S ≤ b * S := Nat.mul_le_mul_right S hab
    rw [Nat.add_mul, Nat.one_mul] at h1
    omega

/-- opening a reader touches only the header blocks -/
theorem open_touches_header_blocks_only (nHB : Nat) (h : 1 ≤ nHB) :
    ∀ f ∈ Container.openReads nHB, f.1 + f.2 ≤ 4096 * nHB := by
  intro f hf
  unfold Container.openReads at hf
  split at hf
  · simp at hf; subst hf; simp; omega
  · simp at hf; rcases hf with rfl | rfl <;> simp <;> omega

-- non-vacuity
example : (⟨5, 6, 300, 4, 4, 256, 64⟩ : Geo).Valid ∧ (⟨70, 65, 9, 64, 64, 4, 16⟩ : Geo).Valid
    ∧ (⟨1, 9, 70, 1, 16, 64, 64⟩ : Geo).Valid2d := by decide
example : (Loader.ilSet ⟨5, 6, 300, 4, 4, 256, 64⟩ 4).fetches = [(16384, 16384)] := by decide

/-- a header look-up on a structured file reads exactly four bytes of every stored header array — each array once, also
when several fields share it — at the position of the trace, and keeps nothing (Model/HeaderReads) -/
theorem structured_header_reads (h : HeaderReads.HFile) (il : Nat) (st : HeaderReads.HSt) (t : Nat)
    (hs : h.structured = true) (h3 : h.is3d = true) (ht : t < h.grid) :
    (HeaderReads.genTraceHeader h il st t false).1 = st ∧
    ∃ o, (HeaderReads.genTraceHeader h il st t false).2 = .ok o
      ∧ o.fetches = (HeaderReads.distinctArrays h).map (fun k => (HeaderReads.offsetOf h k + 4 * t, 4))
      ∧ (HeaderReads.distinctArrays h).Nodup
      ∧ ∀ k, k ∈ HeaderReads.distinctArrays h ↔ ∃ f, f < h.tbl.length ∧ HeaderReads.arrayOf h f = some k :=
  HeaderReads.structured_header_io h il st t hs h3 ht

/-! ### diagonals: every chunk is fetched once, whatever the size of the reader's chunk cache

A diagonal is read trace by trace, each trace through the reader's LRU of decompressed chunks (`Model/Lru`).  The chunks
along a diagonal are visited in monotone order (inline chunk never decreasing; crossline chunk never decreasing on a
correlated, never increasing on an anticorrelated diagonal), so a chunk that has been left is never needed again: an
LRU with a single slot already keeps every chunk — hence every byte — from being fetched twice within the call.  The
default capacity (`get_chunk_cache_size`) is at least 2; a caller may pass any `chunk_cache_size ≥ 1`. -/

theorem diagonal_fetches_each_chunk_once (g : Geo) (cap : Nat) (hcap : 1 ≤ cap) (cd : Int) (lo hi : Nat) :
    (Lru.fetched cap [] (Lru.cdKeys g cd lo hi)).Nodup :=
  Lru.fetched_nodup cap hcap Lru.leCd Lru.leCd_antisymm _ (Lru.cdKeys_pairwise g cd lo hi)

theorem antidiagonal_fetches_each_chunk_once (g : Geo) (cap : Nat) (hcap : 1 ≤ cap) (ad lo hi : Nat) :
    (Lru.fetched cap [] (Lru.adKeys g ad lo hi)).Nodup :=
  Lru.fetched_nodup cap hcap Lru.leAd Lru.leAd_antisymm _ (Lru.adKeys_pairwise g ad lo hi)

/-- with the default capacity -/
theorem diagonal_fetches_each_chunk_once_default (g : Geo) (cd : Int) (lo hi : Nat) :
    (Lru.fetched (Lru.chunkCacheSize g.NB0 g.NB1) [] (Lru.cdKeys g cd lo hi)).Nodup :=
  diagonal_fetches_each_chunk_once g _ (by have := (Lru.chunkCacheSize_ge g.NB0 g.NB1).2; omega) cd lo hi

/-- the trace index the reader computes for the `d`-th trace of a diagonal denotes the grid position whose chunk key the
theorems above follow: `index = il · n1 + xl`, and `get_trace` recovers `(il, xl)` from it -/
theorem diagonal_trace_position (n1 : Nat) (cd : Int) (d : Nat) (h : (Lru.cdPoint cd d).2 < n1) :
    (if cd ≥ 0 then ((d : Int) + cd) * n1 + d else (d : Int) * n1 + d - cd)
        = (((Lru.cdPoint cd d).1 * n1 + (Lru.cdPoint cd d).2 : Nat) : Int)
    ∧ ((Lru.cdPoint cd d).1 * n1 + (Lru.cdPoint cd d).2) / n1 = (Lru.cdPoint cd d).1
    ∧ ((Lru.cdPoint cd d).1 * n1 + (Lru.cdPoint cd d).2) % n1 = (Lru.cdPoint cd d).2 := by
  refine ⟨?_, Lru.position_of_index n1 _ _ h⟩
  rw [Lru.cd_index]; push_cast; rfl

theorem antidiagonal_trace_position (n1 ad d : Nat) (hd : if ad < n1 then d ≤ ad else d + 1 ≤ n1)
    (h : (Lru.adPoint n1 ad d).2 < n1) :
    (if (ad : Int) < n1 then (ad : Int) + d * ((n1 : Int) - 1) else ((ad : Int) - n1 + 1 + d) * n1 + ((n1 : Int) - d - 1))
        = (((Lru.adPoint n1 ad d).1 * n1 + (Lru.adPoint n1 ad d).2 : Nat) : Int)
    ∧ ((Lru.adPoint n1 ad d).1 * n1 + (Lru.adPoint n1 ad d).2) / n1 = (Lru.adPoint n1 ad d).1
    ∧ ((Lru.adPoint n1 ad d).1 * n1 + (Lru.adPoint n1 ad d).2) % n1 = (Lru.adPoint n1 ad d).2 := by
  refine ⟨?_, Lru.position_of_index n1 _ _ h⟩
  rw [Lru.ad_index n1 ad d hd]; push_cast; rfl

-- non-vacuity: a 9 x 9 grid of 4 x 4 chunks, main diagonal, one slot: three chunks, each once; without monotonicity a
-- single slot does fetch twice
example : Lru.fetched 1 [] (Lru.cdKeys ⟨9, 9, 8, 4, 4, 256, 64⟩ 0 0 9) = [(0, 0), (4, 4), (8, 8)] := by decide
example : Lru.fetched 2 [] (Lru.adKeys ⟨9, 9, 8, 4, 4, 256, 64⟩ 8 0 9) = [(0, 8), (0, 4), (4, 4), (4, 0), (8, 0)] := by decide
example : ¬ (Lru.fetched 1 [] [1, 2, 1]).Nodup := by decide
example : Lru.chunkCacheSize 3 7 = 8 ∧ Lru.chunkCacheSize 1 1 = 2 ∧ Lru.chunkCacheSize 0 5 = 2 := by decide

end Sgz.Props.C07
