import Sgz.Proofs.Pipeline
/-!
# C16 — writer pipeline: output independent of thread interleaving; always completes

Model: `Sgz.Pipeline` (Model/Pipeline.lean) — main/producer, compressor and writer threads of
`conversion_utils.run_conversion_loop`, at the granularity of queue operations (`put/get/task_done/join`), thread
start and file writes, for any number `N ≥ 1` of queued items and any queue capacity `cap ≥ 1`.
A *schedule* is any sequence of enabled thread choices; nothing is assumed about fairness.
-/
namespace Sgz.Props.C16
open Sgz.Pipeline

/-- an execution: a sequence of enabled actions -/
inductive Exec (N cap : Nat) : St → List Tid → St → Prop
  | nil (s : St) : Exec N cap s [] s
  | cons {s s' s'' : St} {t : Tid} {ts : List Tid} :
      step N cap s t = some s' → Exec N cap s' ts s'' → Exec N cap s (t :: ts) s''

theorem exec_reach {N cap : Nat} {s s' : St} {ts : List Tid} (h : Exec N cap s ts s') (hr : Reach N cap s) :
    Reach N cap s' := by
  induction h with
  | nil _ => exact hr
  | cons hs _ ih => exact ih (Reach.step hr hs)

/-- **Safety** (all schedules, all `N ≥ 1`, all capacities): when the conversion loop returns (main has passed both
joins) the write log is exactly the sequential one — header first, every block once, in order — both queues are
empty and no thread has an enabled action left, so nothing can be written after the call returns. -/
theorem safety (N cap : Nat) (hN : 0 < N) (ts : List Tid) (s : St) (h : Exec N cap init ts s) (hd : s.m = .done) :
    s.log = Wr.H :: (List.range N).map Wr.B ∧ s.q1 = [] ∧ s.q2 = [] ∧
    step N cap s .C = none ∧ step N cap s .W = none ∧ step N cap s .M = none :=
  done_log N cap hN s (exec_reach h Reach.init) hd

/-- every execution from the initial state has used up exactly `7N+5 − rem` actions -/
theorem exec_length (N cap : Nat) (ts : List Tid) (s : St) (h : Exec N cap init ts s) :
    ts.length + rem N s = 7 * N + 5 := by
  have key : ∀ (s0 s1 : St) (ts : List Tid), Reach N cap s0 → Exec N cap s0 ts s1 → ts.length + rem N s1 = rem N s0 := by
    intro s0 s1 ts hr he
    induction he with
    | nil _ => simp
    | cons hs _ ih =>
      have h1 := rem_step N cap _ _ _ (inv_reach N cap _ hr) hs
      have h2 := ih (Reach.step hr hs)
      simp only [List.length_cons]
      omega
  have := key init s ts Reach.init h
  rw [rem_init] at this
  exact this

/-- **Termination**: no schedule is longer than `7N+5` actions — every interleaving is finite, without any fairness
assumption — -/
theorem bounded (N cap : Nat) (ts : List Tid) (s : St) (h : Exec N cap init ts s) : ts.length ≤ 7 * N + 5 := by
  have := exec_length N cap ts s h
  omega

/-- — and an execution can only stop (no thread enabled) once main is done: **no deadlock** for any capacity ≥ 1. -/
theorem no_deadlock (N cap : Nat) (hcap : 0 < cap) (ts : List Tid) (s : St) (h : Exec N cap init ts s)
    (hstuck : ∀ t, step N cap s t = none) : s.m = .done := by
  by_cases hd : s.m = .done
  · exact hd
  · obtain ⟨t, s', hs⟩ := progress N cap hcap s (exec_reach h Reach.init) hd
    rw [hstuck t] at hs
    cases hs

/-- Together: every maximal execution ends with main returned and the sequential file on disk. -/
theorem every_maximal_run_is_sequential (N cap : Nat) (hN : 0 < N) (hcap : 0 < cap) (ts : List Tid) (s : St)
    (h : Exec N cap init ts s) (hstuck : ∀ t, step N cap s t = none) :
    s.log = Wr.H :: (List.range N).map Wr.B :=
  (safety N cap hN ts s h (no_deadlock N cap hcap ts s h hstuck)).1

/-- strict run: fails on a disabled choice -/
def runOpt (N cap : Nat) : St → List Tid → Option St
  | s, [] => some s
  | s, t :: ts => match step N cap s t with
    | some s' => runOpt N cap s' ts
    | none => none

theorem exec_of_runOpt (N cap : Nat) (ts : List Tid) (s s' : St) (h : runOpt N cap s ts = some s') :
    Exec N cap s ts s' := by
  induction ts generalizing s with
  | nil => simp [runOpt] at h; subst h; exact Exec.nil _
  | cons t ts ih =>
    simp only [runOpt] at h
    split at h
    · rename_i s1 hs
      exact Exec.cons hs (ih s1 h)
    · cases h

-- non-vacuity: complete runs exist (N = 1 and N = 2, capacity 1) and end as stated; 7N+5 actions each
example : ∃ s, Exec 1 1 init [.M, .M, .M, .C, .C, .C, .W, .W, .W, .W, .M, .M] s ∧ s.m = .done ∧
    s.log = [Wr.H, Wr.B 0] := by
  refine ⟨_, exec_of_runOpt 1 1 _ init _ rfl, by decide, by decide⟩

example : ∃ s, Exec 2 1 init [.M, .M, .W, .M, .C, .C, .M, .C, .W, .W, .W, .C, .C, .C, .W, .W, .W, .M, .M] s ∧
    s.m = .done ∧ s.log = [Wr.H, Wr.B 0, Wr.B 1] := by
  refine ⟨_, exec_of_runOpt 2 1 _ init _ rfl, by decide, by decide⟩

end Sgz.Props.C16
