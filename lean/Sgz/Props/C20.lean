import Sgz.Proofs.Writer
/-!
# C20 — the source-data hash covers the real samples in trace order, and nothing else

`Writer.hashFeed g` / `hashFeed2d g` is the sequence of source coordinates whose float32 bytes the producers pass to
`hash_object.update` (plane set after plane set, `planes_to_read` planes each, real crosslines and samples only).  For
every cube / section size and every blockshape it equals the real samples in trace order — so the digest is the SHA-1 of
the source samples (A3: SHA-1 is a streaming function of the concatenation), independent of rate, blockshape and route;
two sources that differ in any sample feed different byte strings (`feed_each_sample_once`).
-/
namespace Sgz.Props.C20
open Sgz

theorem feed_3d (g : Geo) (hg : g.Valid) : Writer.hashFeed g = Spec.samples g := hashFeed_eq g hg

theorem feed_2d (g : Geo) (hg : g.Valid2d) : Writer.hashFeed2d g = Spec.samples2d g := hashFeed2d_eq g hg

/-- the feed does not depend on the blockshape or the unit size (hence not on the bit rate) -/
theorem feed_independent_of_setting (g g' : Geo) (hg : g.Valid) (hg' : g'.Valid)
    (h0 : g.n0 = g'.n0) (h1 : g.n1 = g'.n1) (h2 : g.n2 = g'.n2) : Writer.hashFeed g = Writer.hashFeed g' := by
  rw [hashFeed_eq g hg, hashFeed_eq g' hg']; unfold Spec.samples; rw [h0, h1, h2]

/-- number of samples fed -/
theorem feed_length (g : Geo) (hg : g.Valid) : (Writer.hashFeed g).length = g.n0 * (g.n1 * g.n2) := by
  rw [hashFeed_eq g hg]; unfold Spec.samples
  simp only [flatMap_range_map, List.length_map, List.length_range]

/-- the sample at position `(i·n1 + x)·n2 + z` of the feed is sample (i,x,z): every real sample is fed, at its
trace-order position -/
theorem feed_position (g : Geo) (hg : g.Valid) (i x z : Nat) (hi : i < g.n0) (hx : x < g.n1) (hz : z < g.n2) :
    (Writer.hashFeed g)[(i * g.n1 + x) * g.n2 + z]? = some (i, x, z) := by
  rw [hashFeed_eq g hg]; unfold Spec.samples
  simp only [flatMap_range_map]
  have h1 : x * g.n2 + z < g.n1 * g.n2 := lt_of_mixed _ _ _ _ hx hz
  have h2 : i * (g.n1 * g.n2) + (x * g.n2 + z) < g.n0 * (g.n1 * g.n2) := lt_of_mixed _ _ _ _ hi h1
  have e : (i * g.n1 + x) * g.n2 + z = i * (g.n1 * g.n2) + (x * g.n2 + z) := by
    rw [Nat.add_mul, Nat.mul_assoc, Nat.add_assoc]
  rw [e, List.getElem?_map, List.getElem?_range h2]
  have e3 : (i * (g.n1 * g.n2) + (x * g.n2 + z)) % g.n2 = z := by rw [← e]; exact mod_mixed _ _ _ hz
  simp [div_mixed _ _ _ h1, mod_mixed _ _ _ h1, div_mixed _ _ _ hz, e3]

/-- every position of the trace-order stream is the position of exactly one sample coordinate -/
theorem pos_decomp (n0 n1 n2 p : Nat) (h : p < n0 * (n1 * n2)) :
    ∃ i x z, i < n0 ∧ x < n1 ∧ z < n2 ∧ p = (i * n1 + x) * n2 + z := by
  have h2 : 0 < n2 := by
    rcases Nat.eq_zero_or_pos n2 with h0 | h0
    · subst h0; simp at h
    · exact h0
  have h1 : 0 < n1 := by
    rcases Nat.eq_zero_or_pos n1 with h0 | h0
    · subst h0; simp at h
    · exact h0
  refine ⟨p / n2 / n1, p / n2 % n1, p % n2, ?_, Nat.mod_lt _ h1, Nat.mod_lt _ h2, ?_⟩
  · rw [Nat.div_lt_iff_lt_mul h1, Nat.div_lt_iff_lt_mul h2, Nat.mul_assoc]; exact h
  · rw [Nat.div_add_mod', Nat.div_add_mod']

/-- **every sample is fed exactly once**: no source coordinate occurs at two positions of the feed, and every position
holds a real coordinate — so two sources that differ in any sample feed different byte strings to the digest, and no
sample (in particular no padding replica) is fed twice -/
theorem feed_each_sample_once (g : Geo) (hg : g.Valid) (p p' : Nat) (c : Nat × Nat × Nat)
    (h : (Writer.hashFeed g)[p]? = some c) (h' : (Writer.hashFeed g)[p']? = some c) :
    p = p' ∧ c.1 < g.n0 ∧ c.2.1 < g.n1 ∧ c.2.2 < g.n2 := by
  have hl := feed_length g hg
  have hp : p < g.n0 * (g.n1 * g.n2) := by
    rw [← hl]; exact (List.getElem?_eq_some_iff.mp h).1
  have hp' : p' < g.n0 * (g.n1 * g.n2) := by
    rw [← hl]; exact (List.getElem?_eq_some_iff.mp h').1
  obtain ⟨i, x, z, hi, hx, hz, e⟩ := pos_decomp _ _ _ _ hp
  obtain ⟨i', x', z', hi', hx', hz', e'⟩ := pos_decomp _ _ _ _ hp'
  rw [e, feed_position g hg i x z hi hx hz] at h
  rw [e', feed_position g hg i' x' z' hi' hx' hz'] at h'
  have hc : (i, x, z) = (i', x', z') := Option.some.inj (h.trans h'.symm)
  simp only [Prod.mk.injEq] at hc
  obtain ⟨rfl, rfl, rfl⟩ := hc
  have hcc : c = (i, x, z) := (Option.some.inj h).symm
  subst hcc
  exact ⟨by rw [e, e'], hi, hx, hz⟩

example : (⟨5, 6, 9, 4, 4, 256, 64⟩ : Geo).Valid ∧ (⟨1, 9, 70, 1, 16, 64, 64⟩ : Geo).Valid2d := by decide
example : (Writer.hashFeed ⟨5, 3, 2, 4, 4, 256, 64⟩).length = 30 := by decide +kernel

end Sgz.Props.C20
