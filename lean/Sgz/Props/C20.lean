import Sgz.Proofs.Writer
/-!
# C20 — the source-data hash covers the real samples in trace order, and nothing else

`Writer.hashFeed g` / `hashFeed2d g` is the sequence of source coordinates whose float32 bytes the producers pass to
`hash_object.update` (plane set after plane set, `planes_to_read` planes each, real crosslines and samples only).  For
every cube / section size and every blockshape it equals the real samples in trace order — so the digest is the SHA-1 of
the source samples (A3: SHA-1 is a streaming function of the concatenation), independent of rate, blockshape and route;
two sources that differ in any sample feed different byte strings (`samples_nodup`: every sample is fed exactly once).
-/
namespace Sgz.Props.C20
open Sgz

theorem feed_3d (g : Geo) (hg : g.Valid) : Writer.hashFeed g = Spec.samples g := hashFeed_eq g hg

theorem feed_2d (g : Geo) (hg : g.Valid2d) : Writer.hashFeed2d g = Spec.samples2d g := hashFeed2d_eq g hg

/-- the feed does not depend on the blockshape or the unit size (hence not on the bit rate) -/
theorem feed_independent_of_setting (g g' : Geo) (hg : g.Valid) (hg' : g'.Valid)
    (h0 : g.n0 = g'.n0) (h1 : g.n1 = g'.n1) (h2 : g.n2 = g'.n2) : Writer.hashFeed g = Writer.hashFeed g' := by
  rw [hashFeed_eq g hg, hashFeed_eq g' hg']; unfold Spec.samples; rw [h0, h1, h2]

/-- number of samples fed -/
theorem feed_length (g : Geo) (hg : g.Valid) : (Writer.hashFeed g).length = g.n0 * (g.n1 * g.n2) := by
  rw [hashFeed_eq g hg]; unfold Spec.samples
  simp only [flatMap_range_map, List.length_map, List.length_range]

/-- the sample at position `(i·n1 + x)·n2 + z` of the feed is sample (i,x,z): every real sample is fed, at its
trace-order position -/
theorem feed_position (g : Geo) (hg : g.Valid) (i x z : Nat) (hi : i < g.n0) (hx : x < g.n1) (hz : z < g.n2) :
    (Writer.hashFeed g)[(i * g.n1 + x) * g.n2 + z]? = some (i, x, z) := by
  rw [hashFeed_eq g hg]; unfold Spec.samples
  simp only [flatMap_range_map]
  have h1 : x * g.n2 + z < g.n1 * g.n2 := lt_of_mixed _ _ _ _ hx hz
  have h2 : i * (g.n1 * g.n2) + (x * g.n2 + z) < g.n0 * (g.n1 * g.n2) := lt_of_mixed _ _ _ _ hi h1
  have e : (i * g.n1 + x) * g.n2 + z = i * (g.n1 * g.n2) + (x * g.n2 + z) := by
    rw [Nat.add_mul, Nat.mul_assoc, Nat.add_assoc]
  rw [e, List.getElem?_map, List.getElem?_range h2]
  have e3 : (i * (g.n1 * g.n2) + (x * g.n2 + z)) % g.n2 = z := by rw [← e]; exact mod_mixed _ _ _ hz
  simp [div_mixed _ _ _ h1, mod_mixed _ _ _ h1, div_mixed _ _ _ hz, e3]

example : (⟨5, 6, 9, 4, 4, 256, 64⟩ : Geo).Valid ∧ (⟨1, 9, 70, 1, 16, 64, 64⟩ : Geo).Valid2d := by decide
example : (Writer.hashFeed ⟨5, 3, 2, 4, 4, 256, 64⟩).length = 30 := by decide +kernel

end Sgz.Props.C20
