import Sgz.Model.Reblock
import Sgz.Proofs.Writer
import Mathlib.Tactic.Ring
/-!
# C12 — re-blocking to the z-slice layout changes layout only

`Model/Reblock.lean` mirrors `convert_to_adv_sgz`.  For every cube size:

* `real_voxels_keep_their_unit` — for every **real** voxel (a,b,c) the unit the output holds at the 64×64×4 address of the
  voxel is the source's unit at its 4×4×1024 address, never a zero-filled one; `same_position` is trivial (the position in
  a unit depends on the coordinates mod 4 only).  With C02 for both geometries the decoded volumes are bitwise equal on
  every real voxel;
* `output_geometry_valid` — the output is a valid 64×64×4 geometry at the same rate (so C02/C07/C14 apply to it);
* `unsupported_refused` — any other input layout or rate is refused.
Axes, trace count, headers and hash are byte copies of the source header / footer (checked by the oracle).
-/
namespace Sgz.Props.C12
open Sgz Geo Reblock

theorem output_geometry_valid (g : Geo) (hg : g.Valid) (hs : supported g = true) : (outGeo g).Valid := by
  simp only [supported, Bool.and_eq_true, beq_iff_eq] at hs
  obtain ⟨⟨⟨h0, h1⟩, h2⟩, hu⟩ := hs
  obtain ⟨_, _, _, _, _, _, _, _, p0, p1, p2⟩ := hg
  refine ⟨⟨16, rfl⟩, ⟨16, rfl⟩, ⟨1, rfl⟩, (by show 0 < 64; decide), (by show 0 < 64; decide), (by show 0 < 4; decide), ?_, ?_, p0, p1, p2⟩
  · show 0 < g.u; omega
  · show (64 / 4) * (64 / 4) * (4 / 4) * g.u = 4096; rw [hu]

theorem unsupported_refused (g : Geo) (h : ¬(g.b0 = 4 ∧ g.b1 = 4 ∧ g.b2 = 1024 ∧ g.u = 16)) : supported g = false := by
  simp only [supported, Bool.and_eq_false_iff, beq_eq_false_iff_ne, ne_eq]
  by_cases a : g.b0 = 4 <;> by_cases b : g.b1 = 4 <;> by_cases c : g.b2 = 1024 <;> by_cases d : g.u = 16 <;> simp_all

theorem count_covers (n a : Nat) (ha : a < n) : a % 64 / 4 < count n (a / 64) := by
  unfold count
  have h1 := Nat.div_add_mod a 64
  have h2 := Nat.mod_lt a (by decide : 0 < 64)
  split
  · rename_i hgt
    -- last tile: a / 64 = n / 64
    have h3 := Nat.div_add_mod n 64
    have h4 := Nat.mod_lt n (by decide : 0 < 64)
    have : a / 64 = n / 64 := by omega
    omega
  · omega

/-- **real voxels keep their unit** -/
theorem real_voxels_keep_their_unit (g : Geo) (hg : g.Valid) (hs : supported g = true)
    (a b c : Nat) (ha : a < g.n0) (hb : b < g.n1) (hc : c < g.n2) :
    (units g)[Spec.unit (outGeo g) a b c]? = some (some (Spec.unit g a b c)) := by
  have hs' := hs
  simp only [supported, Bool.and_eq_true, beq_iff_eq] at hs'
  obtain ⟨⟨⟨h0, h1⟩, h2⟩, hu⟩ := hs'
  have ho := output_geometry_valid g hg hs
  rw [Spec.unit_default g hg h0 h1]
  unfold Spec.unit units
  simp only [flatMap_range_map]
  have hcpb : (outGeo g).cpb = 256 := by simp [Geo.cpb, outGeo]
  have e0 : (outGeo g).b0 = 64 := rfl
  have e1 : (outGeo g).b1 = 64 := rfl
  have e2 : (outGeo g).b2 = 4 := rfl
  rw [hcpb, e0, e1, e2]
  have ha' : a / 64 < (outGeo g).NB0 :=
    div_lt_NB a g.n0 64 (by decide) (Nat.lt_of_lt_of_le ha (le_pad _ _ (by decide)))
  have hb' : b / 64 < (outGeo g).NB1 :=
    div_lt_NB b g.n1 64 (by decide) (Nat.lt_of_lt_of_le hb (le_pad _ _ (by decide)))
  have hc' : c / 4 < (outGeo g).NB2 :=
    div_lt_NB c g.n2 4 (by decide) (Nat.lt_of_lt_of_le hc (le_pad _ _ (by decide)))
  have hn : a % 64 / 4 < 16 := by have := Nat.mod_lt a (by decide : 0 < 64); omega
  have hm : b % 64 / 4 < 16 := by have := Nat.mod_lt b (by decide : 0 < 64); omega
  have cell : (a % 64 / 4 * (64 / 4) + b % 64 / 4) * (4 / 4) + c % 4 / 4 = a % 64 / 4 * 16 + b % 64 / 4 := by omega
  rw [cell]
  generalize (outGeo g).NB0 = N0 at *
  generalize (outGeo g).NB1 = N1 at *
  generalize (outGeo g).NB2 = N2 at *
  have k3 : a % 64 / 4 * 16 + b % 64 / 4 < 256 := by omega
  have k2 : c / 4 * 256 + (a % 64 / 4 * 16 + b % 64 / 4) < N2 * 256 := lt_of_mixed _ _ _ _ hc' k3
  have k1 : b / 64 * (N2 * 256) + (c / 4 * 256 + (a % 64 / 4 * 16 + b % 64 / 4)) < N1 * (N2 * 256) := lt_of_mixed _ _ _ _ hb' k2
  have k0 : a / 64 * (N1 * (N2 * 256)) + (b / 64 * (N2 * 256) + (c / 4 * 256 + (a % 64 / 4 * 16 + b % 64 / 4)))
      < N0 * (N1 * (N2 * 256)) := lt_of_mixed _ _ _ _ ha' k1
  have ej : ((a / 64 * N1 + b / 64) * N2 + c / 4) * 256 + (a % 64 / 4 * 16 + b % 64 / 4)
      = a / 64 * (N1 * (N2 * 256)) + (b / 64 * (N2 * 256) + (c / 4 * 256 + (a % 64 / 4 * 16 + b % 64 / 4))) := by ring
  rw [ej, List.getElem?_map, List.getElem?_range k0]
  simp only [Option.map_some, div_mixed _ _ _ k1, mod_mixed _ _ _ k1, div_mixed _ _ _ k2, mod_mixed _ _ _ k2,
    div_mixed _ _ _ k3, mod_mixed _ _ _ k3, div_mixed _ _ _ hm, mod_mixed _ _ _ hm]
  have c0 := count_covers g.n0 a ha
  have c1 := count_covers g.n1 b hb
  simp only [c0, c1, decide_true, Bool.and_self, if_true]
  congr 2
  have ea : 16 * (a / 64) + a % 64 / 4 = a / 4 := by omega
  have eb : 16 * (b / 64) + b % 64 / 4 = b / 4 := by omega
  rw [ea, eb]

theorem same_position (a b c : Nat) : Spec.pos a b c = Spec.pos a b c := rfl

-- non-vacuity: a supported geometry with partial tiles in both directions
def gR : Geo := { n0 := 70, n1 := 66, n2 := 9, b0 := 4, b1 := 4, b2 := 1024, u := 16 }
example : gR.Valid ∧ supported gR = true ∧ (outGeo gR).Valid := by decide
example : supported { gR with u := 32 } = false := by decide

/-- the re-blocked data section holds exactly `256` units for every 64×64×4 block of the output's padded block grid: at
16 bytes a unit, one 4096-byte disk block per output block and nothing else (so the footer starts where a reader of the
output geometry looks for it) -/
theorem units_length (g : Geo) :
    (units g).length = (outGeo g).NB0 * ((outGeo g).NB1 * ((outGeo g).NB2 * 256)) := by
  unfold units
  simp only [flatMap_range_map, List.length_map, List.length_range]

theorem data_section_bytes (g : Geo) :
    (units g).length * 16 = 4096 * ((outGeo g).NB0 * ((outGeo g).NB1 * (outGeo g).NB2)) := by
  rw [units_length]
  generalize (outGeo g).NB0 = a
  generalize (outGeo g).NB1 = b
  generalize (outGeo g).NB2 = c
  ring
/-- a unit row the re-blocker copies from tile `i` exists in the source: `16·i + n` is below the source's padded unit count -/
theorem tile_unit_in_source (N i n : Nat) (hi : i < pad N 64 / 64) (hn : n < count N i) : 16 * i + n < pad N 4 / 4 := by
  unfold count at hn
  unfold pad at *
  split at hn <;> split at hi <;> split <;> omega
/-- **the re-blocker reads inside the source's data section**: every source unit index it copies is below the source's
unit count `(P0/4)·(P1/4)·(P2/4)` — partial tiles never reach beyond the source's padded extent -/
theorem source_units_in_range (g : Geo) (hs : supported g = true) (k s : Nat)
    (h : (units g)[k]? = some (some s)) : s < (g.P0 / 4) * (g.P1 / 4) * (g.P2 / 4) := by
  have hs' := hs
  simp only [supported, Bool.and_eq_true, beq_iff_eq] at hs'
  obtain ⟨⟨⟨h0, h1⟩, h2⟩, hu⟩ := hs'
  unfold units at h
  simp only [flatMap_range_map] at h
  obtain ⟨hlt, heq⟩ := List.getElem?_eq_some_iff.mp h
  have hlt' : k < (outGeo g).NB0 * ((outGeo g).NB1 * ((outGeo g).NB2 * 256)) := by
    have := hlt
    simp only [List.length_map, List.length_range] at this
    exact this
  simp only [List.getElem_map, List.getElem_range] at heq
  have e0 : (outGeo g).NB0 = pad g.n0 64 / 64 := rfl
  have e1 : (outGeo g).NB1 = pad g.n1 64 / 64 := rfl
  have e2 : (outGeo g).NB2 = pad g.n2 4 / 4 := rfl
  have p0 : g.P0 = pad g.n0 4 := by unfold Geo.P0; rw [h0]
  have p1 : g.P1 = pad g.n1 4 := by unfold Geo.P1; rw [h1]
  have p2 : g.P2 = pad g.n2 1024 := by unfold Geo.P2; rw [h2]
  split at heq
  · rename_i hc
    simp only [Bool.and_eq_true, decide_eq_true_eq] at hc
    have hs := Option.some.inj heq
    rw [← hs]
    set A := (outGeo g).NB1 * ((outGeo g).NB2 * 256) with hA
    set B := (outGeo g).NB2 * 256 with hB
    have hi : k / A < pad g.n0 64 / 64 := by rw [← e0]; exact Nat.div_lt_of_lt_mul (by rw [Nat.mul_comm]; exact hlt')
    have hBpos : 0 < B := by
      rcases Nat.eq_zero_or_pos B with hz | hz
      · rw [hA, hz] at hlt'; simp at hlt'
      · exact hz
    have hApos : 0 < A := by
      rcases Nat.eq_zero_or_pos A with hz | hz
      · rw [hz] at hlt'; simp at hlt'
      · exact hz
    have hx : k % A / B < pad g.n1 64 / 64 := by
      rw [← e1]; exact Nat.div_lt_of_lt_mul (by rw [Nat.mul_comm]; exact Nat.mod_lt _ hApos)
    have hz : k % A % B / 256 < pad g.n2 4 / 4 := by
      rw [← e2]; exact Nat.div_lt_of_lt_mul (by rw [Nat.mul_comm]; exact Nat.mod_lt _ hBpos)
    have r0 := tile_unit_in_source g.n0 _ _ hi hc.1
    have r1 := tile_unit_in_source g.n1 _ _ hx hc.2
    have r2 : k % A % B / 256 < g.P2 / 4 := by
      rw [p2]; unfold pad at hz ⊢; split at hz <;> split <;> omega
    rw [p0, p1]
    exact lt_of_mixed _ _ _ _ (lt_of_mixed _ _ _ _ r0 r1) r2
  · cases heq

-- non-vacuity: a 70×5×9 cube (two inline tiles, the second partial) — 2·1·3·256 output units, source has 18·2·256 units
example : supported ⟨70, 5, 9, 4, 4, 1024, 16⟩ = true ∧ (units ⟨70, 5, 9, 4, 4, 1024, 16⟩).length = 1536 := by decide +kernel
example : (units ⟨70, 5, 9, 4, 4, 1024, 16⟩)[3 * 256 + 16 + 1]? = some (some (((16 + 1) * 2 + 1) * 256 + 0)) := by decide +kernel

end Sgz.Props.C12
