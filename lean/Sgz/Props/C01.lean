import Sgz.Proofs.Writer
import Sgz.Proofs.Reader
import Sgz.Proofs.SegyRaw
/-!
# C01 — write-then-read fidelity

`Model/Writer.lean` mirrors the producers (`numpy_producer`, `seismic_file_producer` + `io_thread_func`): for every plane
set a buffer is filled with edge replication and handed to the compressor whole (default layout) or block by block.  With
the codec kept abstract (assumption A1: one unit per 4×4×4 cell, in raster order of each array it is given, each unit a
function of its own cell only), the data section is the list `Writer.cells g`, cell `c` coded from the source samples
`Writer.fillAt g` assigns to its 64 voxels.  Theorems, for **every** valid geometry (all cube sizes, all layouts, all rates):

* `emission_order` — the k-th unit written holds the cell the specification's address function assigns to unit k;
* `written_unit` — hence the unit at `Spec.unit g i x z` holds the cell containing padded voxel (i,x,z);
* `edge_replication` — every padded voxel carries source sample `(min i (n0-1), min x (n1-1), min z (n2-1))`;
* `write_then_read` — with C02: what `read_volume` returns at a real voxel is decoded from exactly that unit, at the
  voxel's position in it.  Nothing else (blockshape, cube size, queue size, route) occurs in the right-hand side, so the
  read-back value is `dec (enc (cell of the edge-extended source))` — the ZFP fixed-rate image of the extended source.
-/
namespace Sgz.Props.C01
open Sgz Geo

theorem emission_order (g : Geo) (hg : g.Valid) :
    Writer.cells g = (List.range (Spec.totalUnits g)).map (Spec.cellOf g) := by
  by_cases hd : (g.b0 == 4 && g.b1 == 4) = true
  · simp only [Bool.and_eq_true, beq_iff_eq] at hd
    exact cells_default g hg hd.1 hd.2
  · exact cells_general g (by simpa using hd)

/-- the unit at the address of padded voxel (i,x,z) was coded from the cell containing (i,x,z) -/
theorem written_unit (g : Geo) (hg : g.Valid) (i x z : Nat) (hi : i < g.P0) (hx : x < g.P1) (hz : z < g.P2) :
    (Writer.cells g)[Spec.unit g i x z]? = some (i / 4, x / 4, z / 4) := by
  obtain ⟨h1, h2⟩ := cellOf_unit g hg i x z hi hx hz
  rw [emission_order g hg, List.getElem?_map, List.getElem?_range h2]
  simp [h1]

/-- the data section is exactly the stated number of 4 KiB blocks: `units × unit bytes = 4096 × blocks` -/
theorem data_section_size (g : Geo) (hg : g.Valid) :
    (Writer.cells g).length * g.u = 4096 * (g.NB0 * g.NB1 * g.NB2) := by
  rw [emission_order g hg, List.length_map, List.length_range]
  unfold Spec.totalUnits
  have := cpb_u hg
  unfold Geo.cpb at this
  calc g.NB0 * (g.NB1 * (g.NB2 * (g.b0 / 4 * (g.b1 / 4 * (g.b2 / 4))))) * g.u
      = (g.NB0 * g.NB1 * g.NB2) * ((g.b0 / 4) * (g.b1 / 4) * (g.b2 / 4) * g.u) := by ring
    _ = 4096 * (g.NB0 * g.NB1 * g.NB2) := by rw [this]; ring

theorem edge_replication (g : Geo) (hg : g.Valid) (i x z : Nat) (hi : i < g.P0) :
    Writer.fillAt g i x z = (min i (g.n0 - 1), min x (g.n1 - 1), min z (g.n2 - 1)) := fillAt_clamp g hg i x z hi

/-- on real voxels nothing is replicated -/
theorem real_voxels_verbatim (g : Geo) (hg : g.Valid) (i x z : Nat) (hi : i < g.n0) (hx : x < g.n1) (hz : z < g.n2) :
    Writer.fillAt g i x z = (i, x, z) := by
  rw [fillAt_clamp g hg i x z (Nat.lt_of_lt_of_le hi (n0_le hg))]
  congr 1
  · omega
  · congr 1 <;> omega

/-- **write-then-read**: `read_volume()` of the written file, at real voxel (i,x,z), is the sample at position
`pos (i,x,z)` decoded from unit `j = Spec.unit g i x z`, and unit `j` of the file was coded from cell (i/4,x/4,z/4) of the
edge-extended source -/
theorem write_then_read (g : Geo) (hg : g.Valid) :
    ∃ f fs, Reader.readVolume g = .ok ⟨.a3 g.n0 g.n1 g.n2 f, fs⟩ ∧
      ∀ i x z, i < g.n0 → x < g.n1 → z < g.n2 →
        f i x z = code 64 (some (Spec.unit g i x z)) (Spec.pos i x z)
        ∧ (Writer.cells g)[Spec.unit g i x z]? = some (i / 4, x / 4, z / 4)
        ∧ ∀ a b c, a < 4 → b < 4 → c < 4 →
            Writer.fillAt g (4 * (i / 4) + a) (4 * (x / 4) + b) (4 * (z / 4) + c)
              = (min (4 * (i / 4) + a) (g.n0 - 1), min (4 * (x / 4) + b) (g.n1 - 1), min (4 * (z / 4) + c) (g.n2 - 1)) := by
  obtain ⟨f, fs, hf, hcoh⟩ := readVolume_ok g hg
  refine ⟨f, fs, hf, ?_⟩
  intro i x z hi hx hz
  have hi' := Nat.lt_of_lt_of_le hi (n0_le hg)
  refine ⟨hcoh i x z hi hx hz, written_unit g hg i x z hi' (Nat.lt_of_lt_of_le hx (n1_le hg))
    (Nat.lt_of_lt_of_le hz (n2_le hg)), ?_⟩
  intro a b c ha _ _
  apply fillAt_clamp g hg
  obtain ⟨m, hm⟩ := P0_dvd4 hg
  rw [hm] at hi' ⊢
  omega

-- non-vacuity and a concrete instance of each layout class
example : (⟨5, 6, 9, 4, 4, 256, 64⟩ : Geo).Valid ∧ (⟨9, 9, 9, 8, 8, 64, 64⟩ : Geo).Valid := by decide
example : (Writer.cells ⟨5, 6, 9, 4, 4, 256, 64⟩).length = 2 * 2 * 64 := by decide +kernel
example : Writer.fillAt ⟨5, 6, 9, 4, 4, 256, 64⟩ 7 7 200 = (4, 5, 8) := by decide

/-! ### the `reduce_iops` route reads the source the same way (Model/SegyRaw)

`MinimalInlineReader.read_line` takes one range read per inline and slices the buffer; the theorems place every sample and
header it hands on at the bytes of that sample / header in the SEG-Y file, show that every plane of every plane set is
filled from an existing inline, and that every inline fills its own plane — so the cube the writer sees on this route is the
cube segyio would deliver (fixed-length traces, no extended text headers: otherwise the reader's self-test rejects it and
the converter falls back to segyio). -/

theorem reduce_iops_sample_bytes (nxl ns i h s : Nat) :
    (SegyRaw.readLine nxl ns i).1 + SegyRaw.sampleInBuf ns h s = SegyRaw.traceOffset ns (i * nxl + h) + 240 + 4 * s :=
  SegyRaw.sample_position nxl ns i h s

theorem reduce_iops_header_bytes (nxl ns i h : Nat) :
    (SegyRaw.readLine nxl ns i).1 + SegyRaw.headerInBuf ns h = SegyRaw.traceOffset ns (i * nxl + h) :=
  SegyRaw.header_position nxl ns i h

theorem reduce_iops_planes_exist (nil b0 p i : Nat) (hb : 0 < b0) (hn : 0 < nil) (hp : p < pad nil b0 / b0) (hi : i < b0) :
    SegyRaw.lineOfPlane nil b0 p i < nil := SegyRaw.lineOfPlane_lt nil b0 p i hb hn hp hi

theorem reduce_iops_every_inline_placed (nil b0 j : Nat) (hb : 0 < b0) (hj : j < nil) :
    SegyRaw.lineOfPlane nil b0 (j / b0) (j % b0) = j ∧ j / b0 < pad nil b0 / b0 ∧ j % b0 < b0 :=
  SegyRaw.lineOfPlane_covers nil b0 j hb hj

example : SegyRaw.conversionReads 5 3 10 4 =
    [(0, 3600), (3600, 840), (3600, 840), (4440, 840), (5280, 840), (6120, 840), (6960, 840), (6960, 840), (6960, 840),
     (6960, 840)] := by decide

end Sgz.Props.C01
