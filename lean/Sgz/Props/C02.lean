import Sgz.Proofs.Reader
import Sgz.Proofs.Coords
import Sgz.Proofs.Subvolume
import Sgz.Proofs.Xarray
/-!
# C02 — access-path coherence

For any SGZ file (any valid geometry `g`: every layout class, every rate, any extents) every read method of the model
returns exactly the corresponding slice of the full decoded volume: element by element, the sample is decoded from the
unit `Spec.unit` — the address function of docs/file-specification.md — and from the position inside that unit that the
specification assigns to the requested voxel.  `Spec.code3 g i x z` *is* the value the independent cell-by-cell decoder
produces for voxel (i,x,z) (under the symbolic codec: `(unit+1)·64 + pos`).

The theorems are about `Model/Reader.lean` + `Model/Loader.lean`, which mirror `read.py` / `loader.py` branch by branch and
are tied to them by the correspondence check (provenance of every returned element on every residue class).
-/
namespace Sgz.Props.C02
open Sgz Geo

/-- what "the corresponding slice of the decoded volume" means for a 3D array result -/
def IsSlice3 (g : Geo) (r : R) (n m k : Nat) (coord : Nat → Nat → Nat → Nat × Nat × Nat) : Prop :=
  ∃ f fs, r = .ok ⟨.a3 n m k f, fs⟩ ∧
    ∀ a b c, a < n → b < m → c < k → f a b c = Spec.code3 g (coord a b c).1 (coord a b c).2.1 (coord a b c).2.2
def IsSlice2 (g : Geo) (r : R) (n m : Nat) (coord : Nat → Nat → Nat × Nat × Nat) : Prop :=
  ∃ f fs, r = .ok ⟨.a2 n m f, fs⟩ ∧
    ∀ a b, a < n → b < m → f a b = Spec.code3 g (coord a b).1 (coord a b).2.1 (coord a b).2.2
def IsSlice1 (g : Geo) (r : R) (n : Nat) (coord : Nat → Nat × Nat × Nat) : Prop :=
  ∃ f fs, r = .ok ⟨.a1 n f, fs⟩ ∧ ∀ a, a < n → f a = Spec.code3 g (coord a).1 (coord a).2.1 (coord a).2.2

theorem inline (g : Geo) (hg : g.Valid) (k : Nat) (hk : k < g.n0) :
    IsSlice2 g (Reader.readInline g k) g.n1 g.n2 (fun x z => (k, x, z)) := readInline_ok g hg k hk

theorem crossline (g : Geo) (hg : g.Valid) (k : Nat) (hk : k < g.n1) :
    IsSlice2 g (Reader.readCrossline g k) g.n0 g.n2 (fun i z => (i, k, z)) := readCrossline_ok g hg k hk

theorem zslice (g : Geo) (hg : g.Valid) (k : Nat) (hk : k < g.n2) :
    IsSlice2 g (Reader.readZslice g k) g.n0 g.n1 (fun i x => (i, x, k)) := readZslice_ok g hg k hk

theorem subvolume (g : Geo) (hg : g.Valid) (i0 i1 x0 x1 z0 z1 : Nat)
    (hi : i0 < i1 ∧ i1 ≤ g.n0) (hx : x0 < x1 ∧ x1 ≤ g.n1) (hz : z0 < z1 ∧ z1 ≤ g.n2) :
    IsSlice3 g (Reader.readSubvolume g false i0 i1 x0 x1 z0 z1) (i1 - i0) (x1 - x0) (z1 - z0)
      (fun a b c => (i0 + a, x0 + b, z0 + c)) :=
  readSubvolume_ok g hg false i0 i1 x0 x1 z0 z1 (by simpa using hi) (by simpa using hx) (by simpa using hz)

theorem volume (g : Geo) (hg : g.Valid) :
    IsSlice3 g (Reader.readVolume g) g.n0 g.n1 g.n2 (fun i x z => (i, x, z)) := readVolume_ok g hg

/-- trace `t` (grid index), samples `[a,b)`; `a = 0, b = n2` is the unwindowed read; a one-sample window has length 1 -/
theorem trace (g : Geo) (hg : g.Valid) (t a b : Nat) (ht : t < g.n0 * g.n1) (hab : a < b) (hb : b ≤ g.n2) :
    IsSlice1 g (Reader.getTrace g t a b) (b - a) (fun c => (t / g.n1, t % g.n1, a + c)) := getTrace_ok g hg t a b ht hab hb

theorem correlatedDiagonal (g : Geo) (hg : g.Valid) (c : Int) (lo hi s e : Nat)
    (hc1 : -(g.n1 : Int) < c) (hc2 : c < g.n0) (hlo : lo < hi) (hhi : (hi : Int) ≤ Reader.cdLen c g.n0 g.n1)
    (hs : s < e) (he : e ≤ g.n2) :
    IsSlice2 g (Reader.readCorrelatedDiagonal g c (some (lo, hi)) (some (s, e))) (hi - lo) (e - s)
      (fun d z => (lo + d + (max c 0).toNat, lo + d + (max (-c) 0).toNat, s + z)) :=
  readCorrelatedDiagonal_ok g hg c lo hi s e hc1 hc2 hlo hhi hs he

theorem correlatedDiagonal_full (g : Geo) (hg : g.Valid) (c : Int) (hc1 : -(g.n1 : Int) < c) (hc2 : c < g.n0) :
    IsSlice2 g (Reader.readCorrelatedDiagonal g c none none) (Reader.cdLen c g.n0 g.n1).toNat g.n2
      (fun d z => (d + (max c 0).toNat, d + (max (-c) 0).toNat, z)) :=
  readCorrelatedDiagonal_full_ok g hg c hc1 hc2

theorem anticorrelatedDiagonal (g : Geo) (hg : g.Valid) (ad lo hi s e : Nat)
    (hc : ad + 1 < g.n0 + g.n1) (hlo : lo < hi) (hhi : (hi : Int) ≤ Reader.adLen ad g.n0 g.n1)
    (hs : s < e) (he : e ≤ g.n2) :
    IsSlice2 g (Reader.readAnticorrelatedDiagonal g ad (some (lo, hi)) (some (s, e))) (hi - lo) (e - s)
      (fun d z => ((ad + 1 - g.n1) + lo + d, ad - (ad + 1 - g.n1) - lo - d, s + z)) :=
  readAnticorrelatedDiagonal_ok g hg ad lo hi s e hc hlo hhi hs he

theorem anticorrelatedDiagonal_full (g : Geo) (hg : g.Valid) (ad : Nat) (hc : ad + 1 < g.n0 + g.n1) :
    IsSlice2 g (Reader.readAnticorrelatedDiagonal g ad none none) (Reader.adLen ad g.n0 g.n1).toNat g.n2
      (fun d z => ((ad + 1 - g.n1) + d, ad - (ad + 1 - g.n1) - d, z)) :=
  readAnticorrelatedDiagonal_full_ok g hg ad hc

/-- the diagonal length functions count exactly the grid points on the diagonal -/
theorem diagonal_lengths (n0 n1 : Nat) (c a : Int) (hc : -(n1 : Int) < c ∧ c < n0) (ha : 0 ≤ a ∧ a < (n0 : Int) + n1 - 1) :
    Reader.cdLen c n0 n1 = min (n0 : Int) (n1 + c) - max c 0 ∧
    Reader.adLen a n0 n1 = min a ((n0 : Int) - 1) - max 0 (a - n1 + 1) + 1 :=
  ⟨cdLen_spec c n0 n1 hc.1 hc.2, adLen_spec a n0 n1 ha.1 ha.2⟩

/-- inline **by line number**: for every regular axis (`dil ≠ 0`: ascending, descending, non-unit, negative numbers) the
number of ordinal `k` returns the same slice as `read_inline(k)` -/
theorem inline_by_number (g : Geo) (hg : g.Valid) (il0 dil : Int) (hd : dil ≠ 0) (k : Nat) (hk : k < g.n0) :
    IsSlice2 g (Coords.readInlineNumber g il0 dil (il0 + dil * (k : Int))) g.n1 g.n2 (fun x z => (k, x, z)) := by
  unfold Coords.readInlineNumber
  rw [not2d_of_valid g hg, Coords.coordToIndex_axis il0 dil hd g.n0 k hk]
  exact readInline_ok g hg k hk

theorem crossline_by_number (g : Geo) (hg : g.Valid) (xl0 dxl : Int) (hd : dxl ≠ 0) (k : Nat) (hk : k < g.n1) :
    IsSlice2 g (Coords.readCrosslineNumber g xl0 dxl (xl0 + dxl * (k : Int))) g.n0 g.n2 (fun i z => (i, k, z)) := by
  unfold Coords.readCrosslineNumber
  rw [not2d_of_valid g hg, Coords.coordToIndex_axis xl0 dxl hd g.n1 k hk]
  exact readCrossline_ok g hg k hk

/-- `subvolume[a:b:c]` (one axis; the three axes are resolved independently and the result is
`read_subvolume(…)[::c0, ::c1, ::c2]`): coordinates in, ordinals `lo, lo+c, … < hi` out — ascending or descending axis -/
theorem subvolume_accessor_axis (a d : Int) (hd : d ≠ 0) (n lo hi c : Nat) (hn : 2 ≤ n) (hlo : lo < hi) (hhi : hi ≤ n)
    (hc : 1 ≤ c) :
    Emul.subvolumeAxis (Axes.axis a d n) ⟨some (a + d * (lo : Int)), some (a + d * (hi : Int)), some ((c : Int) * d)⟩
      = some (Emul.pyRange lo hi c) := Emul.subvolumeAxis_spec a d hd n lo hi c hn hlo hhi hc

-- non-vacuity: valid geometries of each layout class exist, and the model returns arrays on them
def gDefault : Geo := { n0 := 5, n1 := 6, n2 := 300, b0 := 4, b1 := 4, b2 := 256, u := 64 }
def gZslice : Geo := { n0 := 70, n1 := 65, n2 := 9, b0 := 64, b1 := 64, b2 := 4, u := 16 }
def gGeneral : Geo := { n0 := 9, n1 := 17, n2 := 70, b0 := 8, b1 := 16, b2 := 64, u := 32 }
example : gDefault.Valid ∧ gZslice.Valid ∧ gGeneral.Valid := by decide
example : (Reader.readZslice gDefault 299 matches .ok _) = true := by decide

/-! ### the xarray backend (Model/Xarray): bounding box + strides = the key -/

/-- along an axis indexed with a slice of positive step (bounds omitted, negative or beyond the axis as Python allows), the
backend's result holds exactly the positions `range(*slice.indices(n))`: what numpy indexing of the decoded cube selects -/
theorem xarray_slice_positions (s : Emul.PySlice) (n : Nat) (hs : 0 < s.step.getD 1) :
    Xarray.axisPositions (.sl s) n = (Emul.sliceIndices s n).map fun (a, b, c) => Emul.pyRange a b c :=
  Xarray.axisPositions_slice s n hs

/-- an integer key selects that one position, counted from the end when negative -/
theorem xarray_int_position (k : Int) (n : Nat) :
    Xarray.axisPositions (.idx k) n = some [if k < 0 then k + (n : Int) else k] :=
  Xarray.axisPositions_idx k n

example : Xarray.axisPositions (.sl ⟨some (-5), none, some 2⟩) 7 = some [2, 4, 6] := by decide
example : Xarray.box (.idx (-1)) (.sl ⟨some 1, none, some 2⟩) (.sl ⟨none, none, none⟩) 5 6 7
    = some (some ((4, 5), (1, 6), (0, 7))) := by decide

end Sgz.Props.C02
