import Sgz.Proofs.Reader
import Sgz.Props.C14
import Sgz.Proofs.Writer
/-!
# C09 — 2D lines

For every valid 2D geometry (`b0 = 1`, any `(1, n, m)` blockshape, any trace and sample counts): `get_trace` (with or without
a window) and `read_subplane` return exactly the requested samples of the stored section — decoded from the unit and position
the 2D address function of the specification assigns — and volume-style reads are refused with the dimensionality error.
Write side (`seismic_file_producer_2d`): the trace-group producer emits cells in the 2D specification order, every padded
sample carries `(min t (n-1), min z (n2-1))` (edge replication), and `write_then_read_2d` composes both sides.
-/
namespace Sgz.Props.C09
open Sgz Geo

theorem trace (g : Geo) (hg : g.Valid2d) (t a b : Nat) (ht : t < g.n1) (hab : a < b) (hb : b ≤ g.n2) :
    ∃ f fs, Reader.getTrace g t a b = .ok ⟨.a1 (b - a) f, fs⟩ ∧ ∀ c, c < b - a → f c = Spec.code2 g t (a + c) :=
  getTrace2d_ok g hg t a b ht hab hb

theorem subplane (g : Geo) (hg : g.Valid2d) (t0 t1 z0 z1 : Nat) (ht : t0 < t1 ∧ t1 ≤ g.n1) (hz : z0 < z1 ∧ z1 ≤ g.n2) :
    ∃ f fs, Reader.readSubplane g false t0 t1 z0 z1 = .ok ⟨.a2 (t1 - t0) (z1 - z0) f, fs⟩ ∧
      ∀ a c, a < t1 - t0 → c < z1 - z0 → f a c = Spec.code2 g (t0 + a) (z0 + c) :=
  readSubplane_ok g hg false t0 t1 z0 z1 (by simpa using ht) (by simpa using hz)

theorem volume_reads_refused (g : Geo) (hg : g.Valid2d) (k : Int) :
    Reader.readInline g k = .error .dim ∧ Reader.readCrossline g k = .error .dim ∧ Reader.readZslice g k = .error .dim ∧
    Reader.readVolume g = .error .dim :=
  let h := Sgz.Props.C14.volume_reads_refused_on_2d g hg k 0 0 0 0 0 0 none none
  ⟨h.1, h.2.1, h.2.2.1, h.2.2.2.2.1⟩

theorem subplane_out_of_range_refused (g : Geo) (hg : g.Valid2d) (t0 t1 z0 z1 : Int)
    (h : ¬((0 ≤ t0 ∧ t0 < t1 ∧ t1 ≤ g.n1) ∧ (0 ≤ z0 ∧ z0 < z1 ∧ z1 ≤ g.n2))) :
    Reader.readSubplane g false t0 t1 z0 z1 = .error .index :=
  Sgz.Props.C14.readSubplane_refuses g hg t0 t1 z0 z1 h

/-- 2D emission order = the specification's unit order, for `(1,4,N)` (whole-group compression) and every other shape -/
theorem emission_order_2d (g : Geo) (hg : g.Valid2d) :
    Writer.cells2d g = (List.range (Spec.totalUnits2d g)).map (Spec.cellOf2d g) := by
  by_cases hd : (g.b1 == 4) = true
  · exact cells2d_default g hg (by simpa using hd)
  · exact cells2d_general g (by simpa using hd)

theorem written_unit_2d (g : Geo) (hg : g.Valid2d) (t z : Nat) (ht : t < g.P1) (hz : z < g.P2) :
    (Writer.cells2d g)[Spec.unit2d g t z]? = some (t / 4, z / 4) := by
  obtain ⟨h1, h2⟩ := cellOf2d_unit g hg t z ht hz
  rw [emission_order_2d g hg, List.getElem?_map, List.getElem?_range h2]
  simp [h1]

theorem edge_replication_2d (g : Geo) (hg : g.Valid2d) (t z : Nat) (ht : t < g.P1) :
    Writer.fillAt2d g t z = (min t (g.n1 - 1), min z (g.n2 - 1)) := fillAt2d_clamp g hg t z ht

/-- trace `t` read back from the written file: sample `c` is decoded from the unit the writer coded from the cell of the
edge-extended section containing (t, c), at that sample's position in the cell -/
theorem write_then_read_2d (g : Geo) (hg : g.Valid2d) (t : Nat) (ht : t < g.n1) :
    ∃ f fs, Reader.getTrace g t 0 g.n2 = .ok ⟨.a1 g.n2 f, fs⟩ ∧
      ∀ c, c < g.n2 → f c = code 16 (some (Spec.unit2d g t c)) (Spec.pos2d t c)
        ∧ (Writer.cells2d g)[Spec.unit2d g t c]? = some (t / 4, c / 4) := by
  obtain ⟨f, fs, hf, hcoh⟩ := getTrace2d_ok g hg t 0 g.n2 ht hg.2.2.2.2.2.2.2.2.2 (Nat.le_refl _)
  refine ⟨f, fs, by simpa using hf, ?_⟩
  intro c hc
  have := hcoh c (by omega)
  rw [Nat.zero_add] at this
  exact ⟨this, written_unit_2d g hg t c (Nat.lt_of_lt_of_le ht (le_pad _ _ (v2_b1_pos hg)))
    (Nat.lt_of_lt_of_le hc (le_pad _ _ (v2_b2_pos hg)))⟩

def g2d : Geo := { n0 := 1, n1 := 25, n2 := 50, b0 := 1, b1 := 16, b2 := 256, u := 16 }
example : g2d.Valid2d := by decide
example : (Reader.getTrace g2d 24 0 50 matches .ok _) = true := by decide

end Sgz.Props.C09
