import Sgz.Proofs.Reader
import Sgz.Props.C14
/-!
# C09 — 2D lines (read side)

For every valid 2D geometry (`b0 = 1`, any `(1, n, m)` blockshape, any trace and sample counts): `get_trace` (with or without
a window) and `read_subplane` return exactly the requested samples of the stored section — decoded from the unit and position
the 2D address function of the specification assigns — and volume-style reads are refused with the dimensionality error.
The write side (trace-group producer, edge replication) is in `Props/C01.lean` (2D emission order).
-/
namespace Sgz.Props.C09
open Sgz Geo

theorem trace (g : Geo) (hg : g.Valid2d) (t a b : Nat) (ht : t < g.n1) (hab : a < b) (hb : b ≤ g.n2) :
    ∃ f fs, Reader.getTrace g t a b = .ok ⟨.a1 (b - a) f, fs⟩ ∧ ∀ c, c < b - a → f c = Spec.code2 g t (a + c) :=
  getTrace2d_ok g hg t a b ht hab hb

theorem subplane (g : Geo) (hg : g.Valid2d) (t0 t1 z0 z1 : Nat) (ht : t0 < t1 ∧ t1 ≤ g.n1) (hz : z0 < z1 ∧ z1 ≤ g.n2) :
    ∃ f fs, Reader.readSubplane g false t0 t1 z0 z1 = .ok ⟨.a2 (t1 - t0) (z1 - z0) f, fs⟩ ∧
      ∀ a c, a < t1 - t0 → c < z1 - z0 → f a c = Spec.code2 g (t0 + a) (z0 + c) :=
  readSubplane_ok g hg false t0 t1 z0 z1 (by simpa using ht) (by simpa using hz)

theorem volume_reads_refused (g : Geo) (hg : g.Valid2d) (k : Int) :
    Reader.readInline g k = .error .dim ∧ Reader.readCrossline g k = .error .dim ∧ Reader.readZslice g k = .error .dim ∧
    Reader.readVolume g = .error .dim :=
  let h := Sgz.Props.C14.volume_reads_refused_on_2d g hg k 0 0 0 0 0 0 none none
  ⟨h.1, h.2.1, h.2.2.1, h.2.2.2.2.1⟩

theorem subplane_out_of_range_refused (g : Geo) (hg : g.Valid2d) (t0 t1 z0 z1 : Int)
    (h : ¬((0 ≤ t0 ∧ t0 < t1 ∧ t1 ≤ g.n1) ∧ (0 ≤ z0 ∧ z0 < z1 ∧ z1 ≤ g.n2))) :
    Reader.readSubplane g false t0 t1 z0 z1 = .error .index :=
  Sgz.Props.C14.readSubplane_refuses g hg t0 t1 z0 z1 h

def g2d : Geo := { n0 := 1, n1 := 25, n2 := 50, b0 := 1, b1 := 16, b2 := 256, u := 16 }
example : g2d.Valid2d := by decide
example : (Reader.getTrace g2d 24 0 50 matches .ok _) = true := by decide

end Sgz.Props.C09
