import Sgz.Proofs.IO
/-!
# C18 — partial files never read back as data

A file whose writing stopped is (a) a byte prefix of the finished file — every byte length of the finished file, and every
prefix of the append-only write sequence (header, blocks, footer arrays; Python's buffered writer may split or merge the
appends, which only changes *which* byte prefixes occur) — or (b) such a prefix in which an in-place patch made through a
second handle has not yet reached the disk (the 20-byte hash at 960; in `thorough` mode the array count at 64 and the table
at 980).  Theorems, for **every** reader computation that touches the file only through the length-checked range read
(`Prog`; data-dependent control flow such as "parse the header, then decide what to read" included), every file and every
cut point:

* `prefix_reads_raise_or_agree` — on a byte prefix the computation raises or returns exactly what it returns on the
  complete file;
* `pending_patch_raise_or_agree` — the same when the crash state differs from the finished file inside a region the
  computation does not use (the hash field);
* `read_call_on_truncated_file` — for the read calls of `Model/Reader` the verdict is explicit: the call raises iff one of
  its range reads reaches beyond the cut.

Scope: the property quantifies over prefixes of the *sequence of writes* and byte lengths of the finished file; a write torn
in the middle is outside its quantifier.  Every write-prefix state is a byte prefix of the finished file except inside the
regions patched in place later (hash 960–979; in `thorough` mode also the array count 64–67 and the table 980–2047):
`read_call_pending_patch` covers every sample read in all of them (a sample read uses none of those bytes — any `R`).
Header regeneration in the `thorough` states *before* the count/table patch (where the header still names 89 stored arrays
and no footer byte exists, so every lookup reaches beyond the file) is decided by the oracle over captured write logs.
-/
namespace Sgz.Props.C18
open Sgz

theorem prefix_reads_raise_or_agree {α : Type} (p f : File) (h : IsPrefix p f) (prog : Prog α) :
    prog.run p = .error .io ∨ prog.run p = prog.run f := run_prefix p f h prog

theorem pending_patch_raise_or_agree {α : Type} (R : Nat → Bool) (p f : File) (h : AgreesOutside R p f)
    (prog : Prog α) (hins : Insensitive R prog) : prog.run p = .error .io ∨ prog.run p = prog.run f :=
  run_agreesOutside R p f h prog hins

/-- every truncation length `L` of a file: the truncated file is a prefix -/
theorem truncation_is_prefix (f : File) (L : Nat) (hL : L ≤ f.len) : IsPrefix { len := L, byte := f.byte } f :=
  ⟨hL, fun _ _ => rfl⟩

theorem read_call_on_truncated_file (f : File) (L ds : Nat) (o : Out) :
    (o.toProg ds).run { len := L, byte := f.byte } = if truncRaises ds L o = true then .error .io else .ok o.arr :=
  toProg_run { len := L, byte := f.byte } ds o

/-- a read call of the model is insensitive to every byte region (its result is provenance, decided by the geometry):
in particular to a pending hash patch -/
theorem read_call_pending_patch (R : Nat → Bool) (p f : File) (h : AgreesOutside R p f) (ds : Nat) (o : Out) :
    (o.toProg ds).run p = .error .io ∨ (o.toProg ds).run p = (o.toProg ds).run f :=
  run_agreesOutside R p f h _ (toProg_insensitive R ds o)

/-- non-vacuity: a header-then-data program; cut inside the data it raises, cut after it agrees -/
def demoProg : Prog Nat := .read 0 2 fun h => .read 2 (h.headD 0) fun d => .done d.length
def demoFile : File := { len := 6, byte := fun i => if i = 0 then 4 else i }
example : demoProg.run demoFile = .ok 4 := by rfl
example : demoProg.run { demoFile with len := 5 } = .error .io := by rfl
example : IsPrefix { demoFile with len := 5 } demoFile := ⟨by decide, fun _ _ => rfl⟩

end Sgz.Props.C18
