import Sgz.Proofs.IO
import Sgz.Proofs.WriteOrder
/-!
# C18 — partial files never read back as data

A file whose writing stopped is (a) a byte prefix of the finished file — every byte length of the finished file, and every
prefix of the append-only write sequence (header, blocks, footer arrays; Python's buffered writer may split or merge the
appends, which only changes *which* byte prefixes occur) — or (b) such a prefix in which an in-place patch made through a
second handle has not yet reached the disk (the 20-byte hash at 960; in `thorough` mode the array count at 64 and the table
at 980).  Theorems, for **every** reader computation that touches the file only through the length-checked range read
(`Prog`; data-dependent control flow such as "parse the header, then decide what to read" included), every file and every
cut point:

* `prefix_reads_raise_or_agree` — on a byte prefix the computation raises or returns exactly what it returns on the
  complete file;
* `pending_patch_raise_or_agree` — the same when the crash state differs from the finished file inside a region the
  computation does not use (the hash field);
* `read_call_on_truncated_file` — for the read calls of `Model/Reader` the verdict is explicit: the call raises iff one of
  its range reads reaches beyond the cut.

Scope: the property quantifies over prefixes of the *sequence of writes* and byte lengths of the finished file; a write torn
in the middle is outside its quantifier.  Every write-prefix state is a byte prefix of the finished file except inside the
regions patched in place later (hash 960–979; in `thorough` mode also the array count 64–67 and the table 980–2047):
`read_call_pending_patch` covers every sample read in all of them (a sample read uses none of those bytes — any `R`).
Header regeneration in the `thorough` states *before* the count/table patch (where the header still names 89 stored arrays
and no footer byte exists, so every lookup reaches beyond the file): `thorough_header_lookups` below, over the write order
of `Model/WriteOrder` (tied to the converter by comparing the captured write logs with `WriteOrder.shape`).
-/
namespace Sgz.Props.C18
open Sgz

theorem prefix_reads_raise_or_agree {α : Type} (p f : File) (h : IsPrefix p f) (prog : Prog α) :
    prog.run p = .error .io ∨ prog.run p = prog.run f := run_prefix p f h prog

theorem pending_patch_raise_or_agree {α : Type} (R : Nat → Bool) (p f : File) (h : AgreesOutside R p f)
    (prog : Prog α) (hins : Insensitive R prog) : prog.run p = .error .io ∨ prog.run p = prog.run f :=
  run_agreesOutside R p f h prog hins

/-- every truncation length `L` of a file: the truncated file is a prefix -/
theorem truncation_is_prefix (f : File) (L : Nat) (hL : L ≤ f.len) : IsPrefix { len := L, byte := f.byte } f :=
  ⟨hL, fun _ _ => rfl⟩

theorem read_call_on_truncated_file (f : File) (L ds : Nat) (o : Out) :
    (o.toProg ds).run { len := L, byte := f.byte } = if truncRaises ds L o = true then .error .io else .ok o.arr :=
  toProg_run { len := L, byte := f.byte } ds o

/-- a read call of the model is insensitive to every byte region (its result is provenance, decided by the geometry):
in particular to a pending hash patch -/
theorem read_call_pending_patch (R : Nat → Bool) (p f : File) (h : AgreesOutside R p f) (ds : Nat) (o : Out) :
    (o.toProg ds).run p = .error .io ∨ (o.toProg ds).run p = (o.toProg ds).run f :=
  run_agreesOutside R p f h _ (toProg_insensitive R ds o)

/-- non-vacuity: a header-then-data program; cut inside the data it raises, cut after it agrees -/
def demoProg : Prog Nat := .read 0 2 fun h => .read 2 (h.headD 0) fun d => .done d.length
def demoFile : File := { len := 6, byte := fun i => if i = 0 then 4 else i }
example : demoProg.run demoFile = .ok 4 := by rfl
example : demoProg.run { demoFile with len := 5 } = .error .io := by rfl
example : IsPrefix { demoFile with len := 5 } demoFile := ⟨by decide, fun _ _ => rfl⟩

/-! ### the write order of a conversion (Model/WriteOrder) -/

/-- **`thorough` mode, every write-prefix state**: a computation that cannot answer without a footer byte and does not use
the hash field raises in every state up to and including the count / table patches, and raises or agrees with the finished
file in every state after them -/
theorem thorough_states {α : Type} (hdr : List Nat) (blocks : List (List Nat)) (cnt tbl : List Nat)
    (arrays : List (List Nat)) (hash : List Nat) (hh : hash.length = 20) (prog : Prog α)
    (hneed : WriteOrder.NeedsBeyond (WriteOrder.dataEnd hdr blocks) prog)
    (hins : Insensitive WriteOrder.hashRegion prog) :
    let base := WriteOrder.patched hdr blocks cnt tbl
    let fin := WriteOrder.finished base arrays hash
    (∀ k, ∃ e, prog.run (WriteOrder.phase1 hdr blocks k) = .error e)
    ∧ (∃ e, prog.run (WriteOrder.File.patch (WriteOrder.phase1 hdr blocks blocks.length) 64 cnt) = .error e)
    ∧ (∃ e, prog.run base = .error e)
    ∧ (∀ j, prog.run (WriteOrder.phase2 base arrays j) = .error .io
            ∨ prog.run (WriteOrder.phase2 base arrays j) = prog.run fin) :=
  WriteOrder.thorough_states_raise_or_agree hdr blocks cnt tbl arrays hash hh prog hneed hins

/-- the other modes and routes: every write-prefix state, any computation that does not use the hash field -/
theorem plain_states {α : Type} (hdr : List Nat) (blocks arrays : List (List Nat)) (hash : List Nat)
    (hh : hash.length = 20) (prog : Prog α) (hins : Insensitive WriteOrder.hashRegion prog) (k j : Nat) :
    let base := WriteOrder.phase1 hdr blocks blocks.length
    let fin := WriteOrder.finished base arrays hash
    (prog.run (WriteOrder.phase1 hdr blocks k) = .error .io ∨ prog.run (WriteOrder.phase1 hdr blocks k) = prog.run fin)
    ∧ (prog.run (WriteOrder.phase2 base arrays j) = .error .io
        ∨ prog.run (WriteOrder.phase2 base arrays j) = prog.run fin) :=
  WriteOrder.plain_states_raise_or_agree hdr blocks arrays hash hh prog hins k j

/-- a header look-up on a structured file is such a computation: it reads four bytes of every stored array, all in the
footer (at or beyond the end of the data section, hence beyond 980 too) -/
theorem thorough_header_lookups {α : Type} (h : HeaderReads.HFile) (il : Nat) (st : HeaderReads.HSt) (t : Nat)
    (hs : h.structured = true) (h3 : h.is3d = true) (ht : t < h.grid) (hsto : HeaderReads.hasStored h = true)
    (D : Nat) (hD : D ≤ h.footer) (h980 : 980 ≤ h.footer) (k : List (List Nat) → α) :
    ∃ o, (HeaderReads.genTraceHeader h il st t false).2 = .ok o
      ∧ WriteOrder.NeedsBeyond D (WriteOrder.fetchAll o.fetches k)
      ∧ Insensitive WriteOrder.hashRegion (WriteOrder.fetchAll o.fetches k) := by
  obtain ⟨o, ho, ⟨f, hf, hlt⟩, hall⟩ := WriteOrder.structured_header_fetches_footer h il st t hs h3 ht hsto
  refine ⟨o, ho, WriteOrder.fetchAll_needsBeyond D o.fetches ⟨f, hf, by omega⟩ k,
    WriteOrder.fetchAll_insensitive _ o.fetches ?_ k⟩
  intro g hg i _
  have := hall g hg
  simp only [WriteOrder.hashRegion, Bool.and_eq_false_iff, decide_eq_false_iff_not]
  right; omega

/-- … and so is a header look-up by a fresh reader on an unstructured file (irregular 3D, 2D line), which loads whole footer
arrays -/
theorem thorough_header_lookups_unstructured {α : Type} (h : HeaderReads.HFile) (il t : Nat)
    (hs : h.structured = false) (hsto : HeaderReads.hasStored h = true) (o : HeaderReads.HOut)
    (hok : (HeaderReads.genTraceHeader h il HeaderReads.HSt.init t false).2 = .ok o)
    (D : Nat) (hD : D ≤ h.footer) (h980 : 980 ≤ h.footer) (hlen : 0 < h.len) (k : List (List Nat) → α) :
    WriteOrder.NeedsBeyond D (WriteOrder.fetchAll o.fetches k)
      ∧ Insensitive WriteOrder.hashRegion (WriteOrder.fetchAll o.fetches k) := by
  obtain ⟨hne, hall⟩ := WriteOrder.unstructured_header_fetches h il t hs hsto o hok
  constructor
  · apply WriteOrder.fetchAll_needsBeyond
    cases hf : o.fetches with
    | nil => exact absurd hf hne
    | cons f rest =>
      obtain ⟨x, hx⟩ := hall f (by rw [hf]; exact List.mem_cons_self)
      refine ⟨f, List.mem_cons_self, ?_⟩
      rw [hx]; simp only [HeaderReads.offsetOf]
      generalize x * h.stride = m
      omega
  · apply WriteOrder.fetchAll_insensitive
    intro g hg i _
    obtain ⟨x, hx⟩ := hall g hg
    subst hx
    simp only [WriteOrder.hashRegion, HeaderReads.offsetOf, Bool.and_eq_false_iff, decide_eq_false_iff_not]
    right
    apply decide_eq_false
    have : h.footer ≤ h.footer + x * h.stride := Nat.le_add_right _ _
    omega

example : WriteOrder.shape true 2 3 = [.A, .A, .A, .P 64, .P 980, .A, .A, .A, .P 960] := by decide

end Sgz.Props.C18
