import Sgz.Proofs.Cache
import Sgz.Proofs.HeaderReads
/-!
# C15 — history independence

`Model/Cache.lean` is the reader's memoisation as a state machine: eight class-level `lru_cache(maxsize=1)` slots shared
by all readers of the process (keyed on reader and arguments), a chunk LRU per reader of any capacity, preload flags, and
`close()` clearing the shared slots.  Every cache entry stores the value that was computed when it was made.

* `history_independence` — for every file geometry, every number of readers, every preload / cache-size setting and
  **every history** (any length, any interleaving of readers, closes included), the array or refusal returned by each
  call equals that of the same call on a fresh reader (`Cache.pure`, i.e. the stateless `Model/Reader`).
* `last_call` — in particular the last call of any history.
* the invariant behind it (`Cache.Inv`): every remembered value is what the loader computes for *its own key* on this
  file; a key that omitted an argument the value depends on could not satisfy it (`key_sufficiency`).

Tied to the code by the `hist` correspondence: real histories over several `SgzReader`s under the symbolic decoder and
logging file objects — per call: outcome, provenance digest, and the range reads actually issued (a hit issues none, a
cross-reader eviction shows as a re-read) — against `Cache.run`.
-/
namespace Sgz.Props.C15
open Sgz Cache

theorem history_independence (g : Geo) (cfg : Cfg) (hist : List (Nat × Op)) :
    (run g cfg St.init hist).map arrOf
      = hist.map fun p => if p.2 matches .close then .error .other else arrOf (Cache.pure g p.2) :=
  run_spec g cfg St.init (inv_init g) hist

/-- the value of a call after any history equals the value of the call on a fresh reader -/
theorem last_call (g : Geo) (cfg : Cfg) (hist : List (Nat × Op)) (rid : Nat) (op : Op) (hop : op ≠ .close) :
    ((run g cfg St.init (hist ++ [(rid, op)])).map arrOf).getLast? = some (arrOf (Cache.pure g op)) := by
  rw [history_independence]
  simp only [List.map_append, List.map_cons, List.map_nil, List.getLast?_append, List.getLast?_singleton,
    Option.some_or]
  cases op <;> first | rfl | exact absurd rfl hop

/-- the invariant is inductive: it holds initially and every call of every reader preserves it -/
theorem invariant_inductive (g : Geo) (cfg : Cfg) (st : St) (h : Inv g st) (rid : Nat) (op : Op) :
    Inv g (step g cfg st rid op).1 := (step_spec g cfg st h rid op).2

/-- a slot hit returns the loader's value for the *requested* arguments (so a cache keyed on fewer arguments than the
value depends on cannot satisfy the invariant) -/
theorem key_sufficiency (g : Geo) (st : St) (h : Inv g st) (rid : Nat) (k : LKey) :
    (callLoader g st rid k).2.1 = k.load g := (callLoader_spec g st h rid k).1

-- non-vacuity: a history over two readers with an eviction, a hit and a close, on a valid geometry
def gDemo : Geo := { n0 := 9, n1 := 10, n2 := 300, b0 := 4, b1 := 4, b2 := 256, u := 64 }
def cfgDemo : Cfg := { preload := fun _ => false, cap := fun r => if r = 0 then 1 else 4 }
example : gDemo.Valid := by decide
example : ((run gDemo cfgDemo St.init [(0, .il 4), (1, .il 5), (0, .il 4), (0, .tr 13 0 300), (0, .close), (1, .il 5)]).map
    fun r => (match r with | .ok o => o.fetches.length | .error _ => 99)) = [1, 1, 1, 1, 99, 1] := by decide
example : ((run gDemo cfgDemo St.init [(0, .il 4), (0, .il 5), (0, .il 6)]).map
    fun r => (match r with | .ok o => o.fetches.length | .error _ => 99)) = [1, 0, 0] := by decide

/-! ### header and tracefield reads (Model/HeaderReads)

The reader also remembers header arrays: the padding mode of its first `read_variant_headers` (until
`clear_variant_headers`), the population mask, the loaded (masked or padded) arrays, the raw arrays of
`get_tracefield_values`.  Every history of `gen_trace_header` (with or without `load_all_headers`),
`get_tracefield_values`, `read_variant_headers` (either mode, all fields or one) and `clear_variant_headers` returns, at each
header / tracefield read, what a fresh reader returns.  Hypotheses: a structured file is 3D; an unstructured 3D file stores
at least one header array (it stores the inline numbers, from which the population is read).  `read_variant_headers` itself
returns nothing; its refusal of a second mode on one reader is pinned by the repository's own tests and is not a read
result (`obs`). -/

theorem header_history_independence (h : HeaderReads.HFile) (il : Nat)
    (hwf : h.structured = true → h.is3d = true)
    (hst : h.is3d = true → h.structured = false → HeaderReads.hasStored h = true)
    (ops : List HeaderReads.HOp) :
    List.zipWith HeaderReads.obs ops (HeaderReads.run h il HeaderReads.HSt.init ops)
      = ops.map fun op => HeaderReads.obs op (HeaderReads.pure h il op) :=
  HeaderReads.run_spec h il hwf hst ops _ (HeaderReads.hinv_init h il)

/-- the header a reader returns for ordinal `t`, after any history and in either padding mode, is the one the file
defines: constants from the table, every other field from the stored array of the field that owns it, at the grid slot of the
`t`-th populated trace (unstructured 3D), at `t` itself otherwise; `IndexError` when there is no such trace -/
theorem header_value (h : HeaderReads.HFile) (il : Nat) (st : HeaderReads.HSt) (hinv : HeaderReads.HInv h il st) (t : Nat)
    (loadAll : Bool) (hwf : h.structured = true → h.is3d = true)
    (hst : h.is3d = true → h.structured = false → HeaderReads.hasStored h = true) :
    HeaderReads.HR.vals (HeaderReads.genTraceHeader h il st t loadAll).2 = HeaderReads.headerCanon h il t :=
  (HeaderReads.genTraceHeader_spec h il st hinv t loadAll hwf hst).2

/-- the invariant is inductive over header operations -/
theorem header_invariant_inductive (h : HeaderReads.HFile) (il : Nat) (st : HeaderReads.HSt) (hinv : HeaderReads.HInv h il st)
    (hwf : h.structured = true → h.is3d = true)
    (hst : h.is3d = true → h.structured = false → HeaderReads.hasStored h = true) (op : HeaderReads.HOp) :
    HeaderReads.HInv h il (HeaderReads.step h il st op).1 :=
  (HeaderReads.step_spec h il st hinv hwf hst op).1

-- non-vacuity: an irregular 2x2 grid with one hole, two stored fields; padded load, header, tracefield, clear, header
def hDemo : HeaderReads.HFile :=
  { tbl := [(0, 1), (7, 0), (0, 3)], grid := 4, is3d := true, structured := false, hole := fun p => p == 2,
    footer := 1000, stride := 16, len := 16, val := fun k p => if p == 2 then 0 else (k + 1) * 100 + p }
example : HeaderReads.hasStored hDemo = true := by decide
example : ((HeaderReads.run hDemo 0 HeaderReads.HSt.init [.rvh true, .hdr 2, .tfv 2, .clear, .hdr 2, .hdr 3, .rvh true]).map
    HeaderReads.HR.vals)
    = [.ok [], .ok [103, 7, 203], .ok [200, 201, 0, 203], .error .other, .ok [103, 7, 203], .error .index,
       .error .assertion] := by rfl

end Sgz.Props.C15
