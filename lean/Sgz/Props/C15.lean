import Sgz.Proofs.Cache
/-!
# C15 — history independence

`Model/Cache.lean` is the reader's memoisation as a state machine: eight class-level `lru_cache(maxsize=1)` slots shared
by all readers of the process (keyed on reader and arguments), a chunk LRU per reader of any capacity, preload flags, and
`close()` clearing the shared slots.  Every cache entry stores the value that was computed when it was made.

* `history_independence` — for every file geometry, every number of readers, every preload / cache-size setting and
  **every history** (any length, any interleaving of readers, closes included), the array or refusal returned by each
  call equals that of the same call on a fresh reader (`Cache.pure`, i.e. the stateless `Model/Reader`).
* `last_call` — in particular the last call of any history.
* the invariant behind it (`Cache.Inv`): every remembered value is what the loader computes for *its own key* on this
  file; a key that omitted an argument the value depends on could not satisfy it (`key_sufficiency`).

Tied to the code by the `hist` correspondence: real histories over several `SgzReader`s under the symbolic decoder and
logging file objects — per call: outcome, provenance digest, and the range reads actually issued (a hit issues none, a
cross-reader eviction shows as a re-read) — against `Cache.run`.
-/
namespace Sgz.Props.C15
open Sgz Cache

theorem history_independence (g : Geo) (cfg : Cfg) (hist : List (Nat × Op)) :
    (run g cfg St.init hist).map arrOf
      = hist.map fun p => if p.2 matches .close then .error .other else arrOf (Cache.pure g p.2) :=
  run_spec g cfg St.init (inv_init g) hist

/-- the value of a call after any history equals the value of the call on a fresh reader -/
theorem last_call (g : Geo) (cfg : Cfg) (hist : List (Nat × Op)) (rid : Nat) (op : Op) (hop : op ≠ .close) :
    ((run g cfg St.init (hist ++ [(rid, op)])).map arrOf).getLast? = some (arrOf (Cache.pure g op)) := by
  rw [history_independence]
  simp only [List.map_append, List.map_cons, List.map_nil, List.getLast?_append, List.getLast?_singleton,
    Option.some_or]
  cases op <;> first | rfl | exact absurd rfl hop

/-- the invariant is inductive: it holds initially and every call of every reader preserves it -/
theorem invariant_inductive (g : Geo) (cfg : Cfg) (st : St) (h : Inv g st) (rid : Nat) (op : Op) :
    Inv g (step g cfg st rid op).1 := (step_spec g cfg st h rid op).2

/-- a slot hit returns the loader's value for the *requested* arguments (so a cache keyed on fewer arguments than the
value depends on cannot satisfy the invariant) -/
theorem key_sufficiency (g : Geo) (st : St) (h : Inv g st) (rid : Nat) (k : LKey) :
    (callLoader g st rid k).2.1 = k.load g := (callLoader_spec g st h rid k).1

-- non-vacuity: a history over two readers with an eviction, a hit and a close, on a valid geometry
def gDemo : Geo := { n0 := 9, n1 := 10, n2 := 300, b0 := 4, b1 := 4, b2 := 256, u := 64 }
def cfgDemo : Cfg := { preload := fun _ => false, cap := fun r => if r = 0 then 1 else 4 }
example : gDemo.Valid := by decide
example : ((run gDemo cfgDemo St.init [(0, .il 4), (1, .il 5), (0, .il 4), (0, .tr 13 0 300), (0, .close), (1, .il 5)]).map
    fun r => (match r with | .ok o => o.fetches.length | .error _ => 99)) = [1, 1, 1, 1, 99, 1] := by decide
example : ((run gDemo cfgDemo St.init [(0, .il 4), (0, .il 5), (0, .il 6)]).map
    fun r => (match r with | .ok o => o.fetches.length | .error _ => 99)) = [1, 0, 0] := by decide

end Sgz.Props.C15
