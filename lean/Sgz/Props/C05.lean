import Sgz.Model.Axes
import Sgz.Proofs.Rounding
import Mathlib.Tactic.Ring
/-!
# C05 — geometry preservation

* `axis_roundtrip` — for every first line number and every increment in the int32 range (negative numbers, descending
  axes included) and every count such that all line numbers fit in int32, the axis the reader regenerates from the stored
  words — read *unsigned*, multiplied out in 64-bit integers, wrapped by `astype('intc')` — is exactly the source axis.
  `no_int64_overflow` shows the intermediate values stay inside int64.
* `pack_refuses_out_of_range` — a value outside int32 is refused by the writer (struct.error), not stored wrapped.
* `interval_roundtrip` (Proofs/Rounding, over ℚ with the standard rounding model, assumption A4) — for every interval of
  1…65535 µs and every start of |t0| ≤ 32768 ms the binary64 value `1000·((dt/1000 + t0) − t0)` the writer rounds is
  within ½ of `dt`, so round-to-nearest stores exactly `dt`; `truncation_would_fail` is the closed witness (Lean `Float`,
  `decide +kernel`) that truncation does not.
* `sample_axis_count` — the regenerated sample axis has exactly `count` entries.
-/
namespace Sgz.Props.C05
open Sgz Axes

theorem wrap_of_congruent (T m : Int) (hT : -2147483648 ≤ T ∧ T < 2147483648) :
    wrapI32 (T + 4294967296 * m) = T := by
  unfold wrapI32
  have : (T + 4294967296 * m + 2147483648) % 4294967296 = T + 2147483648 := by
    rw [show T + 4294967296 * m + 2147483648 = (T + 2147483648) + 4294967296 * m by omega, Int.add_mul_emod_self_left]
    exact Int.emod_eq_of_lt (by omega) (by omega)
  omega

theorem pack_word (v : Int) (h : -2147483648 ≤ v ∧ v < 2147483648) :
    ∃ c : Int, (c = 0 ∨ c = 1) ∧ packI32 v = some (v + 4294967296 * c).toNat ∧ 0 ≤ v + 4294967296 * c := by
  unfold packI32
  rw [if_pos h]
  by_cases hv : 0 ≤ v
  · exact ⟨0, .inl rfl, by rw [Int.emod_eq_of_lt hv (by omega)]; simp, by omega⟩
  · refine ⟨1, .inr rfl, ?_, by omega⟩
    have : v % 4294967296 = v + 4294967296 := by
      rw [← Int.add_mul_emod_self_left v 4294967296 1]
      exact Int.emod_eq_of_lt (by omega) (by omega)
    rw [this, Int.mul_one]

/-- **line axes**: stored as int32 words, read back unsigned, regenerated in int64 and wrapped — equal to the source -/
theorem axis_roundtrip (start step : Int) (count : Nat)
    (hs : -2147483648 ≤ start ∧ start < 2147483648) (hd : -2147483648 ≤ step ∧ step < 2147483648)
    (hall : ∀ k : Nat, k < count → -2147483648 ≤ start + step * (k : Int) ∧ start + step * (k : Int) < 2147483648) :
    ∃ su du, packI32 start = some su ∧ packI32 step = some du ∧ decodeAxis su du count = axis start step count := by
  obtain ⟨c1, hc1, hp1, hn1⟩ := pack_word start hs
  obtain ⟨c2, hc2, hp2, hn2⟩ := pack_word step hd
  refine ⟨_, _, hp1, hp2, ?_⟩
  unfold decodeAxis axis
  apply List.map_congr_left
  intro k hk
  have hk' := List.mem_range.mp hk
  rw [Int.toNat_of_nonneg hn1, Int.toNat_of_nonneg hn2]
  have e : start + 4294967296 * c1 + (step + 4294967296 * c2) * (k : Int)
      = (start + step * (k : Int)) + 4294967296 * (c1 + c2 * (k : Int)) := by
    ring
  rw [e]
  exact wrap_of_congruent _ _ (hall k hk')

/-- the 64-bit intermediate `start_u + step_u · k` cannot overflow for any axis of fewer than 2³¹ lines -/
theorem no_int64_overflow (su du k : Nat) (hs : su < 4294967296) (hd : du < 4294967296) (hk : k < 2147483648) :
    (su : Int) + (du : Int) * (k : Int) < 9223372036854775808 := by
  have h1 : du * k ≤ 4294967295 * 2147483647 := Nat.mul_le_mul (by omega) (by omega)
  have : (du : Int) * (k : Int) ≤ 4294967295 * 2147483647 := by exact_mod_cast h1
  omega

theorem pack_refuses_out_of_range (v : Int) (h : v < -2147483648 ∨ 2147483648 ≤ v) : packI32 v = none := by
  unfold packI32; rw [if_neg (by omega)]

theorem axis_length (start step : Int) (count : Nat) : (axis start step count).length = count := by simp [axis]

/-- the sample axis regenerated as `start + step·k`, `k < count`, has exactly `count` entries (an `arange(start, stop, step)`
with a float `stop` can have one more) -/
theorem sample_axis_count (startMs : Int) (intervalUs count : Nat) : (sampleAxisUs startMs intervalUs count).length = count := by
  simp [sampleAxisUs]

/-- sample k of the regenerated axis is `start + k·interval`, in exact microseconds -/
theorem sample_axis_entry (startMs : Int) (intervalUs count k : Nat) (hk : k < count) :
    (sampleAxisUs startMs intervalUs count)[k]? = some (startMs * 1000 + (intervalUs : Int) * k) := by
  simp [sampleAxisUs, hk]

theorem structured_iff (tc a b : Nat) : structured tc a b = true ↔ tc = a * b := by simp [structured]

/-- the float step under the standard model: rounding to nearest recovers every whole-microsecond interval -/
theorem interval_rounding (dt t0 e1 e2 e3 e4 : ℚ)
    (hdt1 : 1 ≤ dt) (hdt2 : dt ≤ 65535) (ht0 : |t0| ≤ 32768)
    (h1 : |e1| ≤ Rounding.u) (h2 : |e2| ≤ Rounding.u) (h3 : |e3| ≤ Rounding.u) (h4 : |e4| ≤ Rounding.u) :
    |(1000 * ((((dt / 1000) * (1 + e1) + t0) * (1 + e2) - t0) * (1 + e3))) * (1 + e4) - dt| < 1 / 2 :=
  Rounding.interval_roundtrip dt t0 e1 e2 e3 e4 hdt1 hdt2 ht0 h1 h2 h3 h4

/-- closed witness on IEEE binary64 (Lean's `Float`): `1000 · 1.001` lies below 1001, so truncation would store 1000 -/
theorem truncation_would_fail : ((1000.0 : Float) * 1.001).toUInt64 = 1000 := by decide +kernel

-- non-vacuity: a descending axis with negative numbers, and one touching both int32 limits
example : ∃ su du, packI32 (-7) = some su ∧ packI32 (-3) = some du ∧ decodeAxis su du 4 = [-7, -10, -13, -16] :=
  ⟨4294967289, 4294967293, by decide, by decide, by decide⟩
example : decodeAxis 2147483647 4294967295 3 = [2147483647, 2147483646, 2147483645] := by decide
example : packI32 2147483648 = none := by decide

/-- line `k` of a regenerated axis carries the label `start + step·k` -/
theorem axis_entry (start step : Int) (count k : Nat) (hk : k < count) :
    (axis start step count)[k]? = some (start + step * (k : Int)) := by
  simp [axis, hk]

/-- with a non-zero increment no two lines of an axis share a label: a read by line number denotes one line -/
theorem axis_labels_distinct (start step : Int) (count j k : Nat) (hs : step ≠ 0) (hj : j < count) (hk : k < count)
    (h : (axis start step count)[j]? = (axis start step count)[k]?) : j = k := by
  rw [axis_entry _ _ _ _ hj, axis_entry _ _ _ _ hk] at h
  have h1 : step * (j : Int) = step * (k : Int) := by
    have := Option.some.inj h; omega
  have := Int.eq_of_mul_eq_mul_left hs h1
  omega

example : axis 100 (-2) 4 = [100, 98, 96, 94] := by decide

end Sgz.Props.C05
