import Sgz.Model.Headers
import Sgz.Proofs.HeaderTable
/-!
# C04 — trace-header preservation

`Model/Headers.lean` mirrors the classification from the first and last trace (`headers.py`), the capture of one int32
array per stored field, the `thorough` demotion, and the reader's regeneration from table + arrays.  For every number of
fields, every number of traces and every header content `h`:

* `exhaustive_exact`, `thorough_exact` — with `exhaustive` / `thorough` detection every field of every trace reads back
  equal to the source, no hypothesis on `h`;
* `heuristic_exact` — with the default detection the same holds under the property's hypothesis: every field is constant
  or differs between the first and the last trace (`H1`), and fields that differ and coincide on both ends are equal
  everywhere (`H2`; in particular when no two differing fields coincide on both);
* `heuristic_needs_H1`, `heuristic_needs_H2` — decided counter-examples: without either hypothesis a field reads back wrong,
  so the hypothesis is what is needed, not more;
* `strip_zero` — with `strip` every field reads zero.
-/
namespace Sgz.Props.C04
open Sgz Headers

theorem getD_map_range {β : Type} (n f : Nat) (g : Nat → β) (d : β) (hf : f < n) :
    ((List.range n).map g).getD f d = g f := by
  simp [List.getD, hf]

theorem exhaustive_exact (s : Src) (t f : Nat) (hf : f < s.F) : regen s (classifyAll s) t f = s.h t f := by
  unfold regen classifyAll
  rw [getD_map_range _ _ _ _ hf]
  simp

theorem constantArray_spec (s : Src) (f t : Nat) (h : constantArray s f = true) (ht : t < s.T) : s.h t f = s.h 0 f := by
  unfold constantArray at h
  rw [List.all_eq_true] at h
  simpa using h t (List.mem_range.mpr ht)

theorem thorough_exact (s : Src) (t f : Nat) (hf : f < s.F) (ht : t < s.T) :
    regen s (demote s (classifyAll s)) t f = s.h t f := by
  unfold regen demote
  have hlen : (classifyAll s).length = s.F := by simp [classifyAll]
  rw [hlen, getD_map_range _ _ _ _ hf]
  have hrow : (classifyAll s).getD f (0, 0) = (0, f + 1) := by
    unfold classifyAll; rw [getD_map_range _ _ _ _ hf]
  rw [hrow]
  by_cases hc : constantArray s f = true
  · simp only [beq_self_eq_true, hc, Bool.and_self, if_true]
    have := constantArray_spec s f t hc ht
    by_cases h0 : s.h 0 f = 0
    · simp [h0, this]
    · simp [h0, this]
  · simp [hc]

/-- H1: a field that agrees on the first and last trace is constant -/
def H1 (s : Src) : Prop := ∀ f, f < s.F → variant s f = false → ∀ t, t < s.T → s.h t f = s.h 0 f

/-- H2: differing fields that coincide on the first and on the last trace are equal on every trace -/
def H2 (s : Src) : Prop := ∀ f g, f < s.F → g < s.F → variant s f = true → variant s g = true →
  s.first f = s.first g → s.last f = s.last g → ∀ t, t < s.T → s.h t f = s.h t g

theorem rep_spec (s : Src) (f : Nat) : rep s f ≤ f ∧ (rep s f = f ∨
    (variant s (rep s f) = true ∧ s.first (rep s f) = s.first f ∧ s.last (rep s f) = s.last f)) := by
  unfold rep
  cases hfind : (List.range f).find? (fun g => variant s g && s.first g == s.first f && s.last g == s.last f) with
  | none => simp
  | some g =>
    have hmem := List.mem_of_find?_eq_some hfind
    have hp := List.find?_some hfind
    simp only [Bool.and_eq_true, beq_iff_eq] at hp
    simp only [Option.getD_some]
    exact ⟨Nat.le_of_lt (List.mem_range.mp hmem), .inr ⟨hp.1.1, hp.1.2, hp.2⟩⟩

theorem heuristic_exact (s : Src) (h1 : H1 s) (h2 : H2 s) (t f : Nat) (hf : f < s.F) (ht : t < s.T) :
    regen s (classify s) t f = s.h t f := by
  unfold regen classify
  rw [getD_map_range _ _ _ _ hf]
  by_cases hv : variant s f = true
  · simp only [hv, if_true]
    obtain ⟨hle, hr⟩ := rep_spec s f
    simp only [bne_self_eq_false, Nat.add_one_ne_zero, beq_iff_eq, Bool.false_or, decide_false, Bool.false_eq_true, if_false,
      Nat.add_sub_cancel]
    rcases hr with he | ⟨hvr, hf1, hf2⟩
    · rw [he]
    · exact h2 (rep s f) f (by omega) hf hvr hv hf1 hf2 t ht
  · have hv' : variant s f = false := by simpa using hv
    simp only [hv', Bool.false_eq_true, if_false]
    have := h1 f hf hv' t ht
    unfold Src.first
    by_cases h0 : s.h 0 f = 0
    · simp [h0, this]
    · simp [h0, this]

theorem strip_zero (s : Src) (t f : Nat) (hf : f < s.F) : regen s (classifyNone s) t f = 0 := by
  unfold regen classifyNone
  rw [getD_map_range _ _ _ _ hf]
  simp

/-- the property's own formulation of the second hypothesis: no two *different* differing fields coincide on both ends -/
theorem H2_of_no_coincidence (s : Src)
    (h : ∀ f g, f < s.F → g < s.F → f ≠ g → variant s f = true → variant s g = true →
      ¬(s.first f = s.first g ∧ s.last f = s.last g)) : H2 s := by
  intro f g hf hg vf vg e1 e2 t _
  by_cases hfg : f = g
  · rw [hfg]
  · exact absurd ⟨e1, e2⟩ (h f g hf hg hfg vf vg)

/-- a field equal on the first and last trace but not in between is lost by the heuristic -/
def srcH1 : Src := { F := 2, T := 3, h := fun t f => if f = 0 then (if t = 1 then 7 else 5) else t }
theorem heuristic_needs_H1 : regen srcH1 (classify srcH1) 1 0 ≠ srcH1.h 1 0 := by decide

/-- two differing fields that coincide on the first and last trace only: the second is read from the first's array -/
def srcH2 : Src := { F := 2, T := 3, h := fun t f => if f = 0 then t else (if t = 1 then 9 else t) }
theorem heuristic_needs_H2 : regen srcH2 (classify srcH2) 1 1 ≠ srcH2.h 1 1 := by decide

-- non-vacuity of the hypotheses: a source with a constant, a varying and a genuinely duplicated field
def srcOk : Src := { F := 3, T := 4, h := fun t f => if f = 0 then 42 else (10 + t) }
example : classify srcOk = [(42, 0), (0, 2), (0, 2)] ∧ storedFields (classify srcOk) = [1] ∧ arrayCount (classify srcOk) = 1 := by
  decide

/-! ### through the stored form of the table (bytes 980 … 2047 of the header block)

The theorems above are about the table as a list of rows.  A file stores it as 12 bytes per row with the fields' real
codes; the reader decodes those bytes again (`Model/Header.putTable` / `getTable`, `Model/HeaderTable.toTRows` / `ofTRows`).
Whatever injective, non-zero, 32-bit code assignment the format uses, the table a reader reconstructs from the bytes is
the table the writer classified — so every statement above holds for what a reader regenerates *from the file*. -/

theorem table_through_bytes (code : Nat → Int) (inj : ∀ a b, code a = code b → a = b) (nz : ∀ a, code a ≠ 0)
    (hcode : ∀ a, Header.i32 (code a)) (tbl : List Row) (hd : ∀ r ∈ tbl, r.2 ≤ tbl.length)
    (hc : ∀ r ∈ tbl, Header.i32 r.1) (h : Header.Bytes) :
    HeaderTable.ofTRows code tbl.length
      (Header.getTable (Header.putTable h (HeaderTable.toTRows code tbl)) tbl.length) = tbl := by
  have hlen : (HeaderTable.toTRows code tbl).length = tbl.length := by simp [HeaderTable.toTRows]
  have hr : ∀ r ∈ HeaderTable.toTRows code tbl, Header.i32 r.1 ∧ Header.i32 r.2.1 ∧ Header.i32 r.2.2 := by
    intro r hr
    unfold HeaderTable.toTRows at hr
    obtain ⟨f, hf, rfl⟩ := List.mem_map.mp hr
    have hfl := List.mem_range.mp hf
    have hget : tbl.getD f (0, 0) = tbl[f] := by
      rw [List.getD_eq_getElem?_getD, List.getElem?_eq_getElem hfl]; rfl
    refine ⟨hcode f, ?_, ?_⟩
    · simp only [hget]; exact hc _ (List.getElem_mem hfl)
    · simp only
      split
      · exact ⟨by omega, by omega⟩
      · exact hcode _
  have := Header.getTable_putTable h (HeaderTable.toTRows code tbl) hr
  rw [hlen] at this
  rw [this]
  exact HeaderTable.ofTRows_toTRows code inj nz tbl hd

theorem classify_codes_in_range (s : Src) : ∀ r ∈ classify s, r.2 ≤ (classify s).length := by
  intro r hr
  unfold classify at hr ⊢
  obtain ⟨f, hf, rfl⟩ := List.mem_map.mp hr
  have hfl := List.mem_range.mp hf
  simp only [List.length_map, List.length_range]
  split
  · have := (rep_spec s f).1; simp only; omega
  · simp

/-- heuristic detection, end to end through the file's bytes -/
theorem heuristic_exact_through_bytes (s : Src) (h1 : H1 s) (h2 : H2 s) (code : Nat → Int)
    (inj : ∀ a b, code a = code b → a = b) (nz : ∀ a, code a ≠ 0) (hcode : ∀ a, Header.i32 (code a))
    (hc : ∀ f, Header.i32 (s.first f)) (h : Header.Bytes) (t f : Nat) (hf : f < s.F) (ht : t < s.T) :
    regen s (HeaderTable.ofTRows code (classify s).length
      (Header.getTable (Header.putTable h (HeaderTable.toTRows code (classify s))) (classify s).length)) t f = s.h t f := by
  rw [table_through_bytes code inj nz hcode (classify s) (classify_codes_in_range s) ?_ h]
  · exact heuristic_exact s h1 h2 t f hf ht
  · intro r hr
    unfold classify at hr
    obtain ⟨g, _, rfl⟩ := List.mem_map.mp hr
    split
    · exact ⟨by simp, by simp⟩
    · exact hc g

/-- exhaustive detection, end to end through the file's bytes: no hypothesis on the header content -/
theorem exhaustive_exact_through_bytes (s : Src) (code : Nat → Int)
    (inj : ∀ a b, code a = code b → a = b) (nz : ∀ a, code a ≠ 0) (hcode : ∀ a, Header.i32 (code a))
    (h : Header.Bytes) (t f : Nat) (hf : f < s.F) :
    regen s (HeaderTable.ofTRows code (classifyAll s).length
      (Header.getTable (Header.putTable h (HeaderTable.toTRows code (classifyAll s))) (classifyAll s).length)) t f = s.h t f := by
  rw [table_through_bytes code inj nz hcode (classifyAll s) ?_ ?_ h]
  · exact exhaustive_exact s t f hf
  · intro r hr
    unfold classifyAll at hr ⊢
    obtain ⟨g, hg, rfl⟩ := List.mem_map.mp hr
    have := List.mem_range.mp hg
    simp only [List.length_map, List.length_range]; omega
  · intro r hr
    unfold classifyAll at hr
    obtain ⟨g, _, rfl⟩ := List.mem_map.mp hr
    exact ⟨by simp, by simp⟩

-- non-vacuity: the SEG-Y byte positions 1, 5, 9, … as codes
example : HeaderTable.ofTRows (fun f => 4 * f + 1) 3
    (Header.getTable (Header.putTable (fun _ => 0) (HeaderTable.toTRows (fun f => 4 * f + 1) [(7, 0), (0, 2), (0, 2)])) 3)
    = [(7, 0), (0, 2), (0, 2)] := by decide

end Sgz.Props.C04
