import Sgz.Model.Arith
import Sgz.Model.Geo
import Sgz.Model.Loader
import Sgz.Model.Reader
import Sgz.Model.Version
import Sgz.Props.C03
